"""C05  Folds partition the data and test data never influence fitting.

Monitor: set-structure monitor on every sets_* generator (ids read from descriptors, id-encoded values) with
the numpy global-RNG tap recording every shuffle; perturbation (non-interference) runs of crossval with a
recording / stub fitter wrapper.
Oracle: partition laws over descriptor groups; bitwise equality of theta / fold score under perturbation.
"""
import copy

import numpy as np

from rsatoolbox.inference import crossvalsets as CS
from rsatoolbox.inference import crossval
from rsatoolbox.model import ModelWeighted, ModelSelect, ModelInterpolate, ModelFixed
from rsatoolbox.model import fit_regress, fit_regress_nn, fit_select, fit_interpolate
from rsatoolbox.rdm import RDMs
from vlib import gen, ref
from vlib.monitor import RngTap
from props.c09 import make_source, expected_value

LEVEL = 'exploration'
LEVEL_TEXT = ('Seeded exploration of the real fold generators and of crossval: every returned (train, test, '
              'ceil) triple is checked against the partition laws using unique ids carried by descriptors and '
              'values (inputs include bootstrap samples with duplicate ids and grouped descriptors, every k), '
              'and crossval is re-run with test-only / train-only data overwritten to assert bit-identical '
              'fitted parameters / fold scores. Held on the K executions observed.')
LEVEL_NOTE = ('Fold assignments under random=True are the ones numpy\'s global RNG produced for the swept '
              'seeds (recorded by the tap, replayed by re-seeding). Non-interference uses deterministic '
              'closed-form fitters only.')
DESIGN_REF = 'DESIGN.md section 4 / C05'
TECHNIQUE = 'set-structure monitor with unique ids + RNG tap + perturbation (non-interference) runs with recording fitter'
RULE = ('seeded generator over {generator x k (1..n) x grouping (singleton/pairs/giant/few) x label kind x '
        'bootstrap-copied input yes/no x random yes/no}; each returned fold is a case; non-trivial: >=2 '
        'groups; distinct = configuration signature')
ASSUMPTIONS = ['closed-form fitters (fit_regress, fit_regress_nn, fit_select, fit_interpolate) for the '
               'non-interference runs', 'k within the documented range (k <= number of groups)']
GENERATORS = ['sets_leave_one_out_pattern', 'sets_leave_one_out_rdm', 'sets_k_fold', 'sets_k_fold_rdm',
              'sets_k_fold_pattern', 'sets_of_k_rdm', 'sets_of_k_pattern', 'sets_random']
REQUIRED = ['check:' + g for g in GENERATORS] + ['check:theta_ignores_test_data',
                                                 'check:score_ignores_train_only_data', 'check:fitter_sees_only_training',
                                                 'folds_checked', 'shuffles_observed', 'inputs_with_bootstrap_copies', 'check:bootstrap_crossval_folds',
                                                 'inputs_with_bootstrap_copies_grouped_by_index']
REACH = GENERATORS + ['crossval', 'RDMs.subset', 'RDMs.subsample', 'RDMs.subset_pattern', 'fit_regress']
INCONCLUSIVE_IF = []
FAIL_KEYS = ['generator', 'what', 'k', 'fitter', 'dimension', 'scheme']
TIME_BUDGET = {'quick': 80, 'thorough': 800}


def groups_of(obj, by, dim):
    d = obj.rdm_descriptors if dim == 'rdm' else obj.pattern_descriptors
    return [ref._key(v) for v in d[by]]


def uids_of(obj, dim):
    d = obj.rdm_descriptors['uid'] if dim == 'rdm' else obj.pattern_descriptors['puid']
    return [int(v) for v in d]


def values_ok(obj, meta):
    """every entry equals the id-encoded source value for its (rdm uid, condition uids); NaN only for copies"""
    ru, pu = uids_of(obj, 'rdm'), uids_of(obj, 'pattern')
    if obj.n_rdm != len(ru) or obj.n_cond != len(pu):
        return 'n_rdm/n_cond disagree with descriptors'
    if obj.n_rdm == 0 or obj.n_cond < 2:
        return None
    m = obj.get_matrices()
    for k, r in enumerate(ru):
        for i in range(len(pu)):
            for j in range(i + 1, len(pu)):
                if pu[i] == pu[j]:
                    if not np.isnan(m[k, i, j]):
                        return f'copy pair ({pu[i]},{pu[j]}) not NaN'
                elif m[k, i, j] != expected_value(meta, r, pu[i], pu[j]):
                    return f'value of rdm {r} pair ({pu[i]},{pu[j]}) is {m[k, i, j]!r}'
    return None


def make_input(ctx):
    rng = ctx.rng
    src, meta = make_source(rng)
    # which descriptor the library is told to group by, and which one the checker trusts as ground truth: either the
    # user descriptors grp/pgrp, or the library-managed default 'index' (singleton groups; bootstrap copies must keep
    # their index value -- ground truth is then the uid carried by every RDM / condition)
    if rng.integers(3) == 0:
        meta.update(rdesc='index', pdesc='index', rtruth='uid', ptruth='puid', by_index=True)
    else:
        meta.update(rdesc='grp', pdesc='pgrp', rtruth='grp', ptruth='pgrp', by_index=False)
    boot = bool(rng.integers(2))
    obj = src
    if boot:
        # bootstrap copies: duplicate rdm groups and pattern groups (operations verified by C09)
        rg = sorted(set(groups_of(src, meta['rdesc'], 'rdm')), key=str)
        pg = sorted(set(groups_of(src, meta['pdesc'], 'pattern')), key=str)
        rsel = [rg[int(i)] for i in rng.integers(0, len(rg), size=len(rg))]
        psel = [pg[int(i)] for i in rng.integers(0, len(pg), size=len(pg))]
        if len(set(map(str, psel))) >= 2 and len(set(map(str, rsel))) >= 1:
            obj = src.subsample(meta['rdesc'], rsel).subsample_pattern(meta['pdesc'], psel)
            ctx.count('inputs_with_bootstrap_copies')
            if meta['by_index']:
                ctx.count('inputs_with_bootstrap_copies_grouped_by_index')
        else:
            boot = False
    return obj, meta, boot


def check_fold(ctx, gname, sig, obj, meta, train, test, ceil, split_rdm, split_pat, wit):
    """one (train, test, ceil) triple"""
    ctx.count('folds_checked')
    tr, te = train[0], test[0]
    for name, o in (('train', tr), ('test', te)) + ((('ceil', ceil[0]),) if ceil is not None else ()):
        err = values_ok(o, meta)
        if err:
            ctx.fail(gname, dict(sig, what='object_content'), f'{name} object: {err}', wit())
            return False
    src_r = list(zip(uids_of(obj, 'rdm'), groups_of(obj, meta['rtruth'], 'rdm')))
    src_p = list(zip(uids_of(obj, 'pattern'), groups_of(obj, meta['ptruth'], 'pattern')))
    g_tr_r, g_te_r = set(groups_of(tr, meta['rtruth'], 'rdm')), set(groups_of(te, meta['rtruth'], 'rdm'))
    g_tr_p, g_te_p = set(groups_of(tr, meta['ptruth'], 'pattern')), set(groups_of(te, meta['ptruth'], 'pattern'))
    if split_rdm and (g_tr_r & g_te_r):
        ctx.fail(gname, dict(sig, what='rdm_groups_overlap', dimension='rdm'), f'rdm groups '
                 f'{sorted(map(str, g_tr_r & g_te_r))} are in both the training and the test set', wit())
        return False
    if split_pat and (g_tr_p & g_te_p):
        ctx.fail(gname, dict(sig, what='pattern_groups_overlap', dimension='pattern'), f'pattern groups '
                 f'{sorted(map(str, g_tr_p & g_te_p))} are in both the training and the test set', wit())
        return False
    # all members and bootstrap copies of a group on the same side, with multiplicity
    for name, o, gr, gp in (('train', tr, g_tr_r, g_tr_p), ('test', te, g_te_r, g_te_p)):
        want_r = sorted(u for u, g in src_r if g in gr)
        want_p = sorted(u for u, g in src_p if g in gp)
        if sorted(uids_of(o, 'rdm')) != want_r:
            ctx.fail(gname, dict(sig, what='group_members_split', dimension='rdm'), f'{name} set holds RDM uids '
                     f'{sorted(uids_of(o, "rdm"))}, but its groups {sorted(map(str, gr))} have members {want_r}', wit())
            return False
        if sorted(uids_of(o, 'pattern')) != want_p:
            ctx.fail(gname, dict(sig, what='group_members_split', dimension='pattern'), f'{name} set holds '
                     f'condition uids {sorted(uids_of(o, "pattern"))}, but its groups {sorted(map(str, gp))} have '
                     f'members {want_p}', wit())
            return False
    # advertised pattern indices = groups of the conditions in the object (pattern generators)
    if split_pat or gname in ('sets_k_fold_pattern', 'sets_leave_one_out_pattern', 'sets_of_k_pattern',
                              'sets_k_fold', 'sets_random'):
        for name, o, adv in (('train', tr, train[1]), ('test', te, test[1])):
            if set(ref._key(v) for v in adv) != set(groups_of(o, meta['pdesc'], 'pattern')):
                ctx.fail(gname, dict(sig, what='advertised_patterns'), f'{name} advertises pattern groups '
                         f'{list(map(str, adv))} but holds {sorted(map(str, set(groups_of(o, meta["pdesc"], "pattern"))))}', wit())
                return False
    # ceil set = training RDMs at the test conditions
    if ceil is not None:
        c = ceil[0]
        if sorted(uids_of(c, 'rdm')) != sorted(uids_of(tr, 'rdm')):
            ctx.fail(gname, dict(sig, what='ceil_rdms'), f'ceil set RDM uids {sorted(uids_of(c, "rdm"))} != training '
                     f'RDM uids {sorted(uids_of(tr, "rdm"))}', wit())
            return False
        if sorted(uids_of(c, 'pattern')) != sorted(uids_of(te, 'pattern')):
            ctx.fail(gname, dict(sig, what='ceil_conditions'), f'ceil set conditions {sorted(uids_of(c, "pattern"))} != '
                     f'test conditions {sorted(uids_of(te, "pattern"))}', wit())
            return False
    return True


def check_exhaustive(ctx, gname, sig, obj, meta, tests, k_r, k_p, wit):
    """every group in exactly one test fold along its dimension; fold sizes differ by at most one"""
    all_r = set(groups_of(obj, meta['rtruth'], 'rdm'))
    all_p = set(groups_of(obj, meta['ptruth'], 'pattern'))
    cnt_r, cnt_p = {}, {}
    sizes_r, sizes_p = [], []
    for te in tests:
        gr = set(groups_of(te[0], meta['rtruth'], 'rdm'))
        gp = set(groups_of(te[0], meta['ptruth'], 'pattern'))
        sizes_r.append(len(gr))
        sizes_p.append(len(gp))
        for g in gr:
            cnt_r[g] = cnt_r.get(g, 0) + 1
        for g in gp:
            cnt_p[g] = cnt_p.get(g, 0) + 1
    # along rdm dimension each group must appear in exactly k_p folds (1 when only rdms are split), etc.
    want_r = k_p if k_r > 1 else len(tests)
    want_p = k_r if k_p > 1 else len(tests)
    if k_r > 1:
        bad = {str(g): cnt_r.get(g, 0) for g in all_r if cnt_r.get(g, 0) != want_r}
        if bad:
            ctx.fail(gname, dict(sig, what='not_exactly_one_test_fold', dimension='rdm'),
                     f'rdm groups with a wrong number of test folds (expected {want_r}): {bad}', wit())
            return
        if max(sizes_r) - min(sizes_r) > 1:
            ctx.fail(gname, dict(sig, what='fold_sizes', dimension='rdm'), f'rdm fold sizes {sizes_r}', wit())
            return
    if k_p > 1:
        bad = {str(g): cnt_p.get(g, 0) for g in all_p if cnt_p.get(g, 0) != want_p}
        if bad:
            ctx.fail(gname, dict(sig, what='not_exactly_one_test_fold', dimension='pattern'),
                     f'pattern groups with a wrong number of test folds (expected {want_p}): {bad}', wit())
            return
        if max(sizes_p) - min(sizes_p) > 1:
            ctx.fail(gname, dict(sig, what='fold_sizes', dimension='pattern'), f'pattern fold sizes {sizes_p}', wit())


def run_generator(ctx, tap, gname):
    rng = ctx.rng
    obj, meta, boot = make_input(ctx)
    n_rg = len(set(groups_of(obj, meta['rtruth'], 'rdm')))
    n_pg = len(set(groups_of(obj, meta['ptruth'], 'pattern')))
    random = bool(rng.integers(2))
    sig = dict(generator=gname, rdm_grouping=meta['rgk'], pattern_grouping=meta['pgk'], labels=meta['lk'],
               boot=boot, random=random, by_index=meta['by_index'])
    wit0 = dict(generator=gname, rdm_groups=groups_of(obj, meta['rtruth'], 'rdm'), pattern_groups=groups_of(obj, meta['ptruth'], 'pattern'),
                grouped_by=meta['rdesc'],
                rdm_uids=uids_of(obj, 'rdm'), cond_uids=uids_of(obj, 'pattern'))
    np.random.seed(int(rng.integers(2 ** 31)))
    tap.take()
    k_r = k_p = 1
    exhaustive = True
    if gname == 'sets_leave_one_out_pattern':
        if n_pg < 2:
            return
        call = lambda: CS.sets_leave_one_out_pattern(obj, meta['pdesc'])  # noqa: E731
        k_p = n_pg
    elif gname == 'sets_leave_one_out_rdm':
        if n_rg < 2:
            return
        call = lambda: CS.sets_leave_one_out_rdm(obj, meta['rdesc'])  # noqa: E731
        k_r = n_rg
    elif gname == 'sets_k_fold':
        k_r = int(rng.integers(1, n_rg + 1))
        k_p = int(rng.integers(1, n_pg + 1))
        call = lambda: CS.sets_k_fold(obj, k_rdm=k_r, k_pattern=k_p, random=random,  # noqa: E731
                                      pattern_descriptor=meta['pdesc'], rdm_descriptor=meta['rdesc'])
    elif gname == 'sets_k_fold_rdm':
        if n_rg < 2:
            return
        k_r = int(rng.integers(2, n_rg + 1))
        call = lambda: CS.sets_k_fold_rdm(obj, k_rdm=k_r, random=random, rdm_descriptor=meta['rdesc'])  # noqa: E731
    elif gname == 'sets_k_fold_pattern':
        k_p = int(rng.integers(1, n_pg + 1))
        call = lambda: CS.sets_k_fold_pattern(obj, pattern_descriptor=meta['pdesc'], k=k_p, random=random)  # noqa: E731
    elif gname == 'sets_of_k_rdm':
        if n_rg < 2:
            return
        size = int(rng.integers(1, n_rg // 2 + 1))
        k_r = int(n_rg / size)
        sig['group_size'] = size
        call = lambda: CS.sets_of_k_rdm(obj, rdm_descriptor=meta['rdesc'], k=size, random=random)  # noqa: E731
    elif gname == 'sets_of_k_pattern':
        if n_pg < 2:
            return
        size = int(rng.integers(1, n_pg // 2 + 1))
        k_p = int(n_pg / size)
        sig['group_size'] = size
        call = lambda: CS.sets_of_k_pattern(obj, pattern_descriptor=meta['pdesc'], k=size, random=random)  # noqa: E731
    else:  # sets_random
        n_r = int(rng.integers(0, n_rg))
        n_p = int(rng.integers(0, n_pg))
        n_cv = int(rng.integers(1, 4))
        exhaustive = False
        # a third of the calls rely on the documented defaults for the test-set sizes: the number of groups divided by
        # the default number of divisions (2 below 12 condition groups / 6 RDM groups, 3 below 24 / 12, ...), rounded down
        kw_sizes = {'n_rdm': n_r, 'n_pattern': n_p}
        if rng.integers(3) == 0:
            which = gen.pick(rng, ['pattern', 'rdm', 'both'])
            if which in ('pattern', 'both'):
                n_p = n_pg // (2 if n_pg < 12 else 3 if n_pg < 24 else 4 if n_pg < 40 else 5)
                kw_sizes.pop('n_pattern')
            if which in ('rdm', 'both'):
                n_r = n_rg // (2 if n_rg < 6 else 3 if n_rg < 12 else 4 if n_rg < 20 else 5)
                kw_sizes.pop('n_rdm')
            kw_sizes.update({k: v for k, v in (('n_rdm', n_r), ('n_pattern', n_p)) if k in kw_sizes})
            sig['default_sizes'] = which
        k_r = 2 if n_r > 0 else 1
        k_p = 2 if n_p > 0 else 1
        sig.update(n_rdm=n_r > 0, n_pattern=n_p > 0)
        call = lambda: CS.sets_random(obj, n_cv=n_cv, pattern_descriptor=meta['pdesc'],  # noqa: E731
                                      rdm_descriptor=meta['rdesc'], **kw_sizes)
    sig['k'] = f'{"1" if k_r == 1 else "k"}x{"1" if k_p == 1 else "k"}'
    wit = lambda **k: dict(wit0, k_rdm=k_r, k_pattern=k_p, random=random, **k)  # noqa: E731
    def one_pass():
        ok, out = ctx.guarded(gname, sig, call, data=wit)
        ev = tap.take()
        ctx.count('shuffles_observed', sum(1 for e in ev if e['fn'] == 'shuffle'))
        if not ok:
            return False
        train_set, test_set, ceil_set = out
        ctx.case(gname, sig, sample={'generator': gname, 'k_rdm': k_r, 'k_pattern': k_p, 'n_folds': len(test_set),
                                     'rdm_groups': list(map(str, wit0['rdm_groups'])),
                                     'pattern_groups': list(map(str, wit0['pattern_groups']))})
        if len(train_set) != len(test_set) or (ceil_set is not None and len(ceil_set) != len(test_set)):
            ctx.fail(gname, dict(sig, what='lengths'), 'train/test/ceil lists differ in length', wit())
            return False
        if exhaustive and len(test_set) != k_r * k_p:
            ctx.fail(gname, dict(sig, what='number_of_folds'), f'{len(test_set)} folds for k_rdm={k_r}, '
                     f'k_pattern={k_p}', wit())
            return False
        for i in range(len(test_set)):
            ceil = None if ceil_set is None else ceil_set[i]
            if gname == 'sets_leave_one_out_pattern':
                ceil = None  # ceil is the test patterns of all RDMs (no RDM split): covered by content check below
                c = ceil_set[i][0]
                if sorted(uids_of(c, 'pattern')) != sorted(uids_of(test_set[i][0], 'pattern')) or \
                        sorted(uids_of(c, 'rdm')) != sorted(uids_of(train_set[i][0], 'rdm')):
                    ctx.fail(gname, dict(sig, what='ceil_conditions'), 'ceil set is not the training RDMs at the test '
                             'conditions', wit(fold=i))
                    return False
            if not check_fold(ctx, gname, sig, obj, meta, train_set[i], test_set[i], ceil, k_r > 1, k_p > 1,
                              lambda **k: wit(fold=i, **k)):
                return False
        if exhaustive:
            check_exhaustive(ctx, gname, sig, obj, meta, test_set, k_r, k_p, wit)
        # every shuffle outcome is a permutation of the groups it shuffled
        for e in ev:
            if e['fn'] == 'shuffle' and sorted(map(str, e['before'])) != sorted(map(str, e['after'])):
                ctx.fail(gname, dict(sig, what='shuffle'), 'shuffle did not permute', wit())
        return True
    if not one_pass():
        return
    # the same object is used again after its conditions were reordered in place (and, for a named grouping, after a
    # selection with the same values by ANOTHER descriptor): the folds are those of the object as it is now
    if obj.n_cond >= 3 and rng.integers(2):
        try:
            alt = [ref._key(v) for v in obj.pattern_descriptors[meta['pdesc']]]
            obj.pattern_descriptors['alt_grouping'] = alt[1:] + alt[:1]
            vals = list(dict.fromkeys(alt))[:max(1, len(set(alt)) // 2)]
            obj.subset_pattern('alt_grouping', vals)
            del obj.pattern_descriptors['alt_grouping']
            obj.reorder(np.array([int(i) for i in rng.permutation(obj.n_cond)]))
        except Exception as exc:
            ctx.fail(gname, dict(sig, what='raised', exception=type(exc).__name__), f'in-place reorder: {exc!r}', wit())
            return
        wit0.update(pattern_groups=groups_of(obj, meta['ptruth'], 'pattern'), cond_uids=uids_of(obj, 'pattern'), second_use=True)
        sig = dict(sig, second_use=True)
        np.random.seed(int(rng.integers(2 ** 31)))
        tap.take()
        one_pass()


# ---------------------------------------------------------------------------
# non-interference
# ---------------------------------------------------------------------------
class Recorder:
    def __init__(self, fitter, stub=None):
        self.fitter = fitter
        self.calls = []
        self.stub = stub
        self.i = 0

    def __call__(self, model, data, method='cosine', pattern_idx=None, pattern_descriptor=None, **kw):
        rec = dict(rdm_uids=[int(v) for v in data.rdm_descriptors['uid']],
                   cond_groups=[ref._key(v) for v in data.pattern_descriptors[pattern_descriptor]],
                   pattern_idx=[ref._key(v) for v in pattern_idx])
        if self.stub is not None:
            theta = self.stub[self.i]
            self.i += 1
        else:
            theta = self.fitter(model, data, method=method, pattern_idx=pattern_idx,
                                pattern_descriptor=pattern_descriptor, **kw)
        rec['theta'] = copy.deepcopy(theta)
        self.calls.append(rec)
        return theta


def run_noninterference(ctx):
    rng = ctx.rng
    n_rdm = int(rng.integers(3, 7))
    n_cond = int(rng.integers(6, 10))
    n_pair = n_cond * (n_cond - 1) // 2
    pgk = gen.pick(rng, ['singleton', 'singleton', 'pairs'])
    rgk = gen.pick(rng, ['singleton', 'pairs'])
    pg = gen.group_labels(rng, n_cond, pgk)
    rg = gen.group_labels(rng, n_rdm, rgk)
    data_v = gen.rdm_vectors(rng, n_rdm, n_cond, 'pos')
    basis = gen.rdm_vectors(rng, 3, n_cond, 'pos')
    pdesc = {'puid': list(range(100, 100 + n_cond)), 'pgrp': [int(v) for v in pg]}

    def mk(v):
        return RDMs(v.copy(), rdm_descriptors={'uid': list(range(n_rdm)), 'grp': [int(x) for x in rg]},
                    pattern_descriptors=copy.deepcopy(pdesc))
    mrd = RDMs(basis.copy(), pattern_descriptors=copy.deepcopy(pdesc))
    which = gen.pick(rng, ['weighted', 'weighted_nn', 'select', 'interpolate'])
    if which == 'weighted':
        model, fitter = ModelWeighted('w', mrd), fit_regress
    elif which == 'weighted_nn':
        model, fitter = ModelWeighted('w', mrd), fit_regress_nn
    elif which == 'select':
        model, fitter = ModelSelect('s', mrd), fit_select
    else:
        model, fitter = ModelInterpolate('i', mrd), fit_interpolate
    method = gen.pick(rng, ['cosine', 'corr'])
    n_rg, n_pg = len(set(rg)), len(set(pg))
    k_r = int(rng.integers(1, min(3, n_rg) + 1))
    k_p = int(rng.integers(1 if k_r > 1 else 2, min(3, n_pg // 3) + 1)) if n_pg >= 6 else (1 if k_r > 1 else 2)
    seed = int(rng.integers(2 ** 31))

    scheme = gen.pick(rng, ['k_fold_random', 'k_fold_random', 'k_fold_ordered', 'k_fold_rdm', 'loo_rdm',
                            'k_fold_pattern', 'loo_pattern'])
    pdname = 'pgrp'
    if scheme in ('k_fold_rdm', 'loo_rdm'):
        if n_rg < 2:
            return
        k_r, k_p, pdname = (max(2, k_r) if scheme == 'k_fold_rdm' else n_rg), 1, 'index'
        k_r = min(k_r, n_rg)
    elif scheme in ('k_fold_pattern', 'loo_pattern'):
        k_r = 1
        k_p = max(2, k_p) if scheme == 'k_fold_pattern' else n_pg
        if scheme == 'loo_pattern' and pgk != 'pairs':
            scheme, k_p = 'k_fold_pattern', 2

    def sets_for(d):
        np.random.seed(seed)
        if scheme == 'k_fold_random':
            return CS.sets_k_fold(d, k_rdm=k_r, k_pattern=k_p, random=True, pattern_descriptor='pgrp',
                                  rdm_descriptor='grp')
        if scheme == 'k_fold_ordered':
            return CS.sets_k_fold(d, k_rdm=k_r, k_pattern=k_p, random=False, pattern_descriptor='pgrp',
                                  rdm_descriptor='grp')
        if scheme == 'k_fold_rdm':
            return CS.sets_k_fold_rdm(d, k_rdm=k_r, random=bool(seed % 2), rdm_descriptor='grp')
        if scheme == 'loo_rdm':
            return CS.sets_leave_one_out_rdm(d, 'grp')
        if scheme == 'k_fold_pattern':
            return CS.sets_k_fold_pattern(d, pattern_descriptor='pgrp', k=k_p, random=bool(seed % 2))
        return CS.sets_leave_one_out_pattern(d, 'pgrp')

    def run(d, rec):
        tr, te, ce = sets_for(d)
        # (test sets of fewer than three conditions are marked NaN by crossval; a noise ceiling of a one-entry RDM is
        # undefined for corr and raises -- degenerate input, C07's business, so no ceiling is asked for there)
        cc = calc_ceil and all(t[0].n_cond >= 3 for t in te)
        res = crossval([model], d, tr, te, ceil_set=ce if pass_ceil else None, method=method, fitter=rec,
                       pattern_descriptor=pdname, calc_noise_ceil=cc)
        return tr, te, res
    # the generators' ceil_set is optional for crossval (default None), and so is the noise ceiling: the fold's score
    # must rest on the fold's own test set whichever way the call is written
    pass_ceil = bool(rng.integers(2))
    calc_ceil = bool(rng.integers(2))
    sig = dict(fitter=which, method=method, k=f'{k_r}x{k_p}', rdm_grouping=rgk, pattern_grouping=pgk, scheme=scheme,
               ceil_set='passed' if pass_ceil else 'omitted', noise_ceiling=calc_ceil)
    wit = lambda **k: dict(data=data_v, basis=basis, pgrp=pg, rgrp=rg, k_rdm=k_r, k_pattern=k_p, seed=seed,  # noqa
                           fitter=which, method=method, **k)
    base = mk(data_v)
    rec0 = Recorder(fitter)
    try:
        tr0, te0, res0 = run(base, rec0)
    except np.linalg.LinAlgError:
        ctx.count('rejected_singular_training_set')  # fewer training pairs than basis RDMs
        return
    except Exception as exc:
        ctx.fail('theta_ignores_test_data', dict(sig, exception=type(exc).__name__), repr(exc), wit())
        return
    if np.all(np.isnan(res0.evaluations)):
        ctx.count('noninterference_skipped_all_nan')
        return
    iu = np.triu_indices(n_cond, 1)
    n_fold = len(te0)
    # the fitter is shown training data only
    for f, c in enumerate(rec0.calls):
        ctx.case('fitter_sees_only_training', sig)
        tr_uids = [int(v) for v in tr0[f][0].rdm_descriptors['uid']]
        te_only_r = set(int(v) for v in te0[f][0].rdm_descriptors['uid']) - set(tr_uids) if k_r > 1 else set()
        te_groups = set(ref._key(v) for v in te0[f][0].pattern_descriptors['pgrp']) if k_p > 1 else set()
        if pdname == 'index':
            te_groups = set()
        if set(c['rdm_uids']) & te_only_r:
            ctx.fail('fitter_sees_only_training', dict(sig, what='test_rdms_shown'), f'fold {f}: fitter was shown '
                     f'test-only RDMs {sorted(set(c["rdm_uids"]) & te_only_r)}', wit(fold=f))
        if (set(c['cond_groups']) | set(c['pattern_idx'])) & te_groups:
            ctx.fail('fitter_sees_only_training', dict(sig, what='test_conditions_shown'), f'fold {f}: fitter was '
                     f'shown test condition groups {sorted((set(c["cond_groups"]) | set(c["pattern_idx"])) & te_groups)}',
                     wit(fold=f))
    n_evaluated = int(np.sum(~np.isnan(res0.evaluations[0, 0])))
    if len(rec0.calls) != n_evaluated:
        ctx.fail('fitter_sees_only_training', dict(sig, what='fold_without_own_fit'), f'{n_evaluated} folds were '
                 f'evaluated but the fitter was invoked {len(rec0.calls)} times: some fold was scored with '
                 f'parameters that were not fitted on its own training set', wit())
        return
    if len(rec0.calls) != n_fold:
        ctx.count('noninterference_skipped_nan_folds')
        return
    for f in range(n_fold):
        tr_r = set(int(v) for v in tr0[f][0].rdm_descriptors['uid'])
        te_r = set(int(v) for v in te0[f][0].rdm_descriptors['uid'])
        tr_c = set(int(v) for v in tr0[f][0].pattern_descriptors['puid'])
        te_c = set(int(v) for v in te0[f][0].pattern_descriptors['puid'])
        test_only_r = te_r - tr_r if k_r > 1 else set()
        test_only_c = te_c - tr_c if k_p > 1 else set()
        # (A) overwrite everything that involves a test-only condition or a test-only RDM
        va = data_v.copy()
        for r in range(n_rdm):
            for col, (a, b) in enumerate(zip(iu[0], iu[1])):
                if r in test_only_r or (100 + a) in test_only_c or (100 + b) in test_only_c:
                    va[r, col] = rng.uniform(0.05, 3.0)
        recA = Recorder(fitter)
        try:
            run(mk(va), recA)
        except np.linalg.LinAlgError:
            ctx.count('rejected_singular_training_set')
            return
        except Exception as exc:
            ctx.fail('theta_ignores_test_data', dict(sig, exception=type(exc).__name__), repr(exc), wit(fold=f))
            return
        ctx.case('theta_ignores_test_data', sig, sample={'fitter': which, 'k_rdm': k_r, 'k_pattern': k_p, 'fold': f})
        if len(recA.calls) != n_fold or not np.array_equal(np.asarray(recA.calls[f]['theta']),
                                                            np.asarray(rec0.calls[f]['theta'])):
            ctx.fail('theta_ignores_test_data', sig, f'fold {f}: parameters changed from '
                     f'{np.asarray(rec0.calls[f]["theta"]).tolist()} to '
                     f'{np.asarray(recA.calls[f]["theta"]).tolist() if len(recA.calls) > f else None} when only '
                     f'test-only data (RDMs {sorted(test_only_r)}, conditions {sorted(test_only_c)}) were altered',
                     wit(fold=f, altered=va))
            return
        # (B) overwrite training-only entries, thetas held fixed by a stub fitter
        vb = data_v.copy()
        for r in range(n_rdm):
            for col, (a, b) in enumerate(zip(iu[0], iu[1])):
                in_test_entry = (r in te_r) and ((100 + a) in te_c) and ((100 + b) in te_c)
                if not in_test_entry:
                    vb[r, col] = rng.uniform(0.05, 3.0)
        recB = Recorder(fitter, stub=[c['theta'] for c in rec0.calls])
        try:
            _, _, resB = run(mk(vb), recB)
        except Exception as exc:
            ctx.fail('score_ignores_train_only_data', dict(sig, exception=type(exc).__name__), repr(exc), wit(fold=f))
            return
        ctx.case('score_ignores_train_only_data', sig)
        s0, sB = res0.evaluations[0, 0, f], resB.evaluations[0, 0, f]
        if not (s0 == sB or (np.isnan(s0) and np.isnan(sB))):
            ctx.fail('score_ignores_train_only_data', sig, f'fold {f}: score changed from {s0!r} to {sB!r} when only '
                     f'training-only data were altered and the parameters held fixed', wit(fold=f, altered=vb))
            return


def run_bootstrap_crossval_folds(ctx):
    """the folds that bootstrap-wrapped cross-validation cuts inside each bootstrap sample respect the grouping the
    caller asked for: observed at the module boundary (evaluate.sets_k_fold is looked up at call time)"""
    from rsatoolbox.inference import evaluate as E
    from rsatoolbox.inference import bootstrap_crossval
    from vlib.monitor import Trace, patched
    rng = ctx.rng
    n_grp = int(rng.integers(4, 7))
    per = int(rng.integers(2, 4))
    n_rdm, n_cond = n_grp * per, int(rng.integers(8, 11))
    order = rng.permutation(n_rdm)
    grp = [f'subj{int(i) // per}' for i in order]          # several RDMs (sessions) per subject, interleaved
    v = gen.rdm_vectors(rng, n_rdm, n_cond, 'pos')
    rd = RDMs(v.copy(), rdm_descriptors={'uid': list(range(n_rdm)), 'grp': grp},
              pattern_descriptors={'puid': list(range(n_cond))})
    models = [ModelFixed('f', RDMs(gen.rdm_vectors(rng, 1, n_cond, 'pos'), pattern_descriptors={'puid': list(range(n_cond))}))]
    k_rdm = int(rng.integers(2, 4))
    boot_type = gen.pick(rng, ['rdm', 'both'])
    sig = dict(generator='bootstrap_crossval', k=f'{k_rdm}x1', scheme=boot_type)
    wit = lambda **k: dict(grp=grp, k_rdm=k_rdm, boot_type=boot_type, **k)  # noqa: E731
    tr = Trace()
    np.random.seed(int(rng.integers(2 ** 31)))
    with patched(E, 'sets_k_fold', lambda f: tr.wrap('sets_k_fold', f)):
        ok, _ = ctx.guarded('bootstrap_crossval_folds', sig, bootstrap_crossval, models, rd, method='cosine', N=4,
                            k_rdm=k_rdm, k_pattern=1, rdm_descriptor='grp', pattern_descriptor='puid',
                            boot_type=boot_type, data=wit)
    if not ok:
        return
    rets = tr.returns('sets_k_fold')
    if not rets:
        # every one of the N=4 bootstrap samples held fewer distinct subjects than k_rdm (they are marked NaN and no
        # folds are cut): nothing to observe in this configuration.  The run as a whole is inconclusive only when NO
        # configuration yields a traced fold (REQUIRED 'check:bootstrap_crossval_folds')
        ctx.count('bootstrap_crossval_no_fold_cut')
        return
    for ev in rets:
        train_set, test_set, _ = ev['out']
        for tr_f, te_f in zip(train_set, test_set):
            ctx.case('bootstrap_crossval_folds', sig)
            g_tr = set(map(str, tr_f[0].rdm_descriptors['grp']))
            g_te = set(map(str, te_f[0].rdm_descriptors['grp']))
            if g_tr & g_te:
                ctx.fail('bootstrap_crossval_folds', dict(sig, what='rdm_groups_overlap', dimension='rdm'),
                         f'inside bootstrap_crossval(rdm_descriptor="grp") a fold has subjects {sorted(g_tr & g_te)} both in '
                         f'the training and in the test set', wit())
                return


def run_many_groups(ctx):
    """a realistic group study: 18-26 subjects with 2-3 sessions each, the subject descriptor stored as a numpy array of
    strings or floats.  Leave-one-subject-out: the test set holds exactly that subject's RDMs, the training set exactly
    all the others (ground truth: the uid every RDM carries)"""
    rng = ctx.rng
    n_grp, per = int(rng.integers(18, 27)), int(rng.integers(2, 4))
    n_rdm, n_cond = n_grp * per, 4
    order = rng.permutation(n_rdm)
    kind = gen.pick(rng, ['str', 'float'])
    lab = (lambda g: f'subj{g:02d}') if kind == 'str' else (lambda g: float(g) + 0.5)
    grp = np.array([lab(int(i) // per) for i in order])
    rd = RDMs(gen.rdm_vectors(rng, n_rdm, n_cond, 'pos'), rdm_descriptors={'uid': list(range(n_rdm)), 'grp': grp},
              pattern_descriptors={'puid': list(range(n_cond))})
    truth = {u: grp[u] for u in range(n_rdm)}
    sig = dict(generator='sets_leave_one_out_rdm', k='kx1', scheme='many_groups', dimension='rdm', labels=kind)
    wit = lambda **k: dict(grp=grp.tolist(), **k)  # noqa: E731
    ok, out = ctx.guarded('sets_leave_one_out_rdm', sig, CS.sets_leave_one_out_rdm, rd, 'grp', data=wit)
    if not ok:
        return
    train_set, test_set, _ = out
    ctx.case('sets_leave_one_out_rdm', sig)
    seen = []
    for tr_f, te_f in zip(train_set, test_set):
        te_u = sorted(int(v) for v in te_f[0].rdm_descriptors['uid'])
        tr_u = sorted(int(v) for v in tr_f[0].rdm_descriptors['uid'])
        g = {truth[u] for u in te_u}
        want_te = sorted(u for u in range(n_rdm) if truth[u] in g)
        want_tr = sorted(u for u in range(n_rdm) if truth[u] not in g)
        if len(g) != 1 or te_u != want_te or tr_u != want_tr:
            ctx.fail('sets_leave_one_out_rdm', dict(sig, what='rdm_groups_overlap' if set(tr_u) & set(want_te) else 'group_members_split'),
                     f'leave-one-subject-out over {n_grp} subjects: test RDMs {te_u} (subjects {sorted(map(str, g))}), training '
                     f'set holds {len(tr_u)} RDMs, expected the {len(want_tr)} RDMs of all other subjects; overlap '
                     f'{sorted(set(tr_u) & set(want_te))}', wit())
            return
        seen.append(next(iter(g)))
    if sorted(map(str, seen)) != sorted(map(str, set(grp.tolist()))):
        ctx.fail('sets_leave_one_out_rdm', dict(sig, what='not_exactly_one_test_fold'), 'not every subject is left out exactly '
                 'once', wit())


def run(ctx):
    for _ in range(ctx.n(3, 8)):
        run_many_groups(ctx)
    for _ in range(ctx.n(6, 12)):
        run_bootstrap_crossval_folds(ctx)
    n = ctx.n(120, 1600)
    with RngTap() as tap:
        for it in range(n):
            if ctx.out_of_time():
                ctx.notes.append(f'time budget reached after {it} rounds')
                break
            for g in GENERATORS:
                run_generator(ctx, tap, g)
            if it % 2 == 0:
                run_noninterference(ctx)
