"""C15  Unbalanced (compiled) estimator matches the balanced one, skips missing channels.

Monitor: (1) clang AddressSanitizer + UndefinedBehaviorSanitizer build of the compiled kernel (cengine/similarity.c
of the tree under test, compiled into a scratch copy of the package) running the whole workload in a sanitized
process; (2) result monitor on calc_rdm_unbalanced / calc_one_similarity against the object users import.
Oracle: sanitizer reports; a Python pair-loop reference (NaN channels skipped per observation pair, both weightings,
self terms, fold exclusion); equalities with calc_rdm where theory demands them.
"""
import json
import os
import shutil
import subprocess
import sys
import warnings

import numpy as np

from rsatoolbox.data import Dataset
from rsatoolbox.rdm import calc_rdm, calc_rdm_unbalanced
from rsatoolbox.rdm.calc_unbalanced import calc_one_similarity
from vlib import env, gen, ref
from vlib.core import close, maxdiff

LEVEL = 'exploration'
LEVEL_TEXT = ('The compiled kernel is rebuilt from the tree\'s similarity.c with AddressSanitizer and '
              'UndefinedBehaviorSanitizer and the whole seeded workload (all six methods, both weightings, NaN patterns, '
              'dtypes, memory layouts, fold descriptors) runs in that sanitized process; independently the same workload '
              'runs against the extension users import, with every returned (label pair -> value) compared with a Python '
              'pair-loop reference and with calc_rdm where theory demands equality. Held on the K executions observed; a '
              'clean sanitizer run is not memory safety.')
LEVEL_NOTE = ('Cython is not available in this sandbox: the sanitizer observes the generated similarity.c that is on disk, '
              'and kernel defects cannot be repaired/validated here (they are recorded as known findings). Red-zone tools '
              'miss intra-object and far out-of-bounds accesses.')
DESIGN_REF = 'DESIGN.md section 4 / C15'
TECHNIQUE = 'clang ASan+UBSan build of the compiled kernel + runtime result monitor vs Python pair-loop reference'
RULE = ('seeded generator over {method (6) x weighting (2) x NaN pattern (none / whole channel / per observation / pair '
        'without valid product) x repetition design x label kind x dtype x memory layout x fold descriptor x precision}; '
        'non-trivial: >= 2 conditions; distinct = configuration signature; the same cases run in the sanitized process')
ASSUMPTIONS = ['SPD precision cond <= 50', 'poisson: non-negative data',
               'correlation: equality with the balanced estimator only for one observation per condition (as stated)']
REQUIRED = ['check:unbalanced_vs_reference', 'check:equals_calc_rdm', 'check:nan_channel_has_no_effect',
            'check:no_valid_product_is_nan', 'check:dtype_layout', 'check:calc_one_similarity', 'check:list_input',
            'sanitized_cases', 'sanitizer_log_parsed']
REACH = ['calc_rdm_unbalanced', 'calc_one_similarity', 'ensure_double', 'row_col_indicator_rdm']
FAIL_KEYS = ['what', 'mech', 'kind', 'function', 'access']
TIME_BUDGET = {'quick': 150, 'thorough': 900}
INCONCLUSIVE_IF = ['sanitizer_unavailable']

METHODS = ['euclidean', 'correlation', 'mahalanobis', 'crossnobis', 'poisson', 'poisson_cv']


class Degenerate(Exception):
    pass


def pair_term(method, xi, xj, prec, lam, w, kernel=False):
    """(similarity sum, weight) of one observation pair.  kernel=True replicates the arithmetic of the compiled
    correlation kernel as it is on this tree (channel count n_dim instead of the number of valid channels), used only to
    classify a mismatch by mechanism."""
    valid = ~(np.isnan(xi) | np.isnan(xj))
    cnt = int(valid.sum())
    if cnt == 0 and not (kernel and method == 'correlation'):
        return 0.0, 0.0
    a, b = xi[valid], xj[valid]
    if method == 'euclidean' or (method in ('mahalanobis', 'crossnobis') and prec is None):
        return float(a @ b), float(cnt)
    if method in ('mahalanobis', 'crossnobis'):
        p = prec[np.ix_(valid, valid)]
        return float(a @ p @ b), float(cnt)
    if method == 'correlation':
        if kernel:
            nd = len(xi)
            si, sj, si2, sj2, sij = a.sum(), b.sum(), (a * a).sum(), (b * b).sum(), (a * b).sum()
            with np.errstate(all='ignore'):
                if si2 > 0 and sj2 > 0:
                    r = np.float64(sij - si * sj / nd) / np.sqrt(np.float64(si2 - si * si / nd)) / np.sqrt(np.float64(sj2 - sj * sj / nd))
                else:
                    r = 1.0
            return float(r * nd / 2), float(cnt)
        if cnt < 2:
            raise Degenerate()
        va, vb = float(((a - a.mean()) ** 2).sum()), float(((b - b.mean()) ** 2).sum())
        if va <= 1e-12 * max(1.0, float(a @ a)) or vb <= 1e-12 * max(1.0, float(b @ b)):
            raise Degenerate()
        r = float((a - a.mean()) @ (b - b.mean())) / np.sqrt(va * vb)
        return r * cnt / 2, float(cnt)
    # poisson
    la, lb = (a + lam * w) / (1 + w), (b + lam * w) / (1 + w)
    return float(np.sum((lb - la) * (np.log(la) - np.log(lb)))) / 2, float(cnt)


def ref_unbalanced(meas, cond, fold, method, weighting, prec, lam, w, kernel=False):
    """dict frozenset{la, lb} -> value (NaN when no admissible pair); labels in first-appearance order.
    kernel=True: the arithmetic of the compiled loop as it is on this tree (self terms of weighting='equal' get weight
    integer 1/2 = 0 and are added even when no channel is valid) -- only used to name the mechanism of a mismatch."""
    meas = np.asarray(meas, dtype=float)
    labs = []
    for c in cond:
        if ref._key(c) not in labs:
            labs.append(ref._key(c))
    n = len(labs)
    idx = [labs.index(ref._key(c)) for c in cond]
    cv = fold is not None
    val = {}
    wt = {}

    def add(key, s, ww, half=False):
        with np.errstate(all='ignore'):
            if weighting == 'number':
                val[key] = val.get(key, 0.0) + (s / 2 if half else s)
                wt[key] = wt.get(key, 0.0) + (ww / 2 if half else ww)
            else:
                val[key] = val.get(key, 0.0) + (np.float64(s) / ww / 2 if half else np.float64(s) / ww)
                wt[key] = wt.get(key, 0.0) + ((0.0 if kernel else 0.5) if half else 1.0)
    for i in range(len(cond)):
        if not cv:
            s, ww = pair_term(method, meas[i], meas[i], prec, lam, w, kernel)
            if ww > 0 or kernel:
                add(('self', idx[i]), s, ww, half=True)
        for j in range(i + 1, len(cond)):
            if cv and ref._key(fold[i]) == ref._key(fold[j]):
                continue
            s, ww = pair_term(method, meas[i], meas[j], prec, lam, w, kernel)
            if ww <= 0:
                continue
            if idx[i] == idx[j]:
                add(('self', idx[i]), s, ww)
            else:
                add(('x', min(idx[i], idx[j]), max(idx[i], idx[j])), s, ww)
    out = {}
    for a in range(n):
        for b in range(a + 1, n):
            ks = [('self', a), ('self', b), ('x', a, b)]
            with np.errstate(all='ignore'):
                sa, sb, x = [np.float64(val[k]) / wt[k] if wt.get(k, 0) > 0 else np.nan for k in ks]
                out[frozenset((labs[a], labs[b]))] = float(sa + sb - 2 * x)
    return labs, out


def make_case(rng, method=None):
    method = method or gen.pick(rng, METHODS)
    n_cond = int(rng.integers(2, 7))
    n_ch = int(rng.integers(2, 9)) if method != 'correlation' else int(rng.integers(3, 9))
    cvm = method in ('crossnobis', 'poisson_cv')
    # a fold descriptor is honoured by all six methods (pairs sharing a fold value are excluded), not only by the two
    # whose names say so: a quarter of the other methods' cases carry one
    with_fold = cvm or bool(rng.integers(4) == 0)
    design = gen.pick(rng, ['single', 'balanced', 'unbalanced'])
    if with_fold:
        n_fold = int(rng.integers(2, 5))
        reps = 1 if design == 'single' else int(rng.integers(1, 3))
        cond, fold = [], []
        for f in range(n_fold):
            for c in range(n_cond):
                for _ in range(reps):
                    cond.append(c)
                    fold.append(f)
        if design == 'unbalanced' and rng.integers(4) == 0:
            # one condition is present in a single fold only: its self term has no admissible pair
            keep = [i for i in range(len(cond)) if cond[i] != 0 or fold[i] == 0]
            cond, fold = [cond[i] for i in keep], [fold[i] for i in keep]
            design = 'one_fold_condition'
        elif design == 'unbalanced':   # drop a few rows
            keep = sorted(rng.choice(len(cond), size=max(n_cond * 2, len(cond) - int(rng.integers(1, 4))), replace=False).tolist())
            cond, fold = [cond[i] for i in keep], [fold[i] for i in keep]
            if len(set(cond)) < n_cond:
                design = 'balanced'
                cond = [c for f in range(n_fold) for c in range(n_cond)]
                fold = [f for f in range(n_fold) for c in range(n_cond)]
    else:
        cidx, _ = gen.design(rng, n_cond, design, rmax=3)
        cond, fold = [int(c) for c in cidx], None
    omit_cv = False
    if cvm and rng.integers(5) == 0:
        # every observation is its own fold (a trial counter as fold descriptor, or no fold descriptor at all for a
        # cross-validated method): only the products of an observation with itself are excluded
        reps_c = int(rng.integers(2, 4))
        cond = [c for c in range(n_cond) for _ in range(reps_c)]
        fold = list(range(len(cond)))
        design = 'own_folds'
        omit_cv = bool(rng.integers(2))
    order = [int(i) for i in rng.permutation(len(cond))]
    cond = [cond[i] for i in order]
    fold = None if fold is None else [fold[i] for i in order]
    if design == 'own_folds':
        fold = list(range(len(cond)))
    lk = gen.pick(rng, gen.LABEL_KINDS)
    labs = gen.labels(rng, n_cond, lk)
    pos = method in ('poisson', 'poisson_cv')
    vk = gen.pick(rng, ['pos', 'posint']) if pos else gen.pick(rng, ['normal', 'smallint_f', 'int'])
    meas = gen.values(rng, (len(cond), n_ch), vk)
    nan = gen.pick(rng, ['none', 'none', 'channel', 'per_obs', 'no_valid', 'whole_obs'])
    prec = gen.spd(rng, n_ch, 50.0) if method in ('mahalanobis', 'crossnobis') and rng.integers(3) else None
    fk = gen.pick(rng, ['str', 'int', 'float_frac', 'float_frac'])
    if fk == 'str':
        fold_labels = [f'f{f}' for f in range(8)]
    elif fk == 'int':
        fold_labels = [int(v) for v in rng.choice(np.arange(-3, 30), size=8, replace=False)]
    else:   # session.run codes: several folds share the integer part
        fold_labels = [float(v) for v in rng.permutation([1.1, 1.2, 1.5, 2.1, 2.25, 2.5, 0.25, 0.75])]
    if design == 'own_folds':
        fold_labels = list(range(100, 100 + len(cond)))
        fk = 'int'
    return dict(omit_cv=omit_cv, fold_labels=fold_labels, fold_kind=fk, method=method, n_cond=n_cond, n_ch=n_ch, design=design, cond=cond, fold=fold, labs=labs, lk=lk, vk=vk,
                meas=meas, nan=nan, prec=prec, weighting=gen.pick(rng, ['number', 'number', 'equal']),
                lam=float(gen.pick(rng, [1.0, 0.5])), w=float(gen.pick(rng, [0.1, 1.0])),
                container=gen.pick(rng, gen.CONTAINERS), layout=gen.pick(rng, ['C', 'F', 'strided']))


def with_nan(rng, case):
    m = np.array(case['meas'], dtype=float)
    kind = case['nan']
    if kind == 'channel':
        m[:, int(rng.integers(m.shape[1]))] = np.nan
    elif kind == 'per_obs':
        k = int(rng.integers(1, max(2, m.size // 5)))
        for _ in range(k):
            m[int(rng.integers(m.shape[0])), int(rng.integers(m.shape[1]))] = np.nan
    elif kind == 'no_valid':
        # two observations of different conditions without any common valid channel
        i = 0
        j = next((r for r in range(len(case['cond'])) if case['cond'][r] != case['cond'][0]), 1)
        half = m.shape[1] // 2
        m[i, :half or 1] = np.nan
        m[j, half or 1:] = np.nan
        if half == 0:
            m[j, :] = np.nan
    elif kind == 'whole_obs':
        # a rejected trial: the very first observation has no valid channel at all (its condition is still the first to
        # appear, and stays in the RDM even if this was its only observation)
        m[0, :] = np.nan
    return m


def build_ds(case, meas, layout=None):
    layout = layout or case['layout']
    if layout == 'F':
        meas = np.asfortranarray(meas)
    elif layout == 'strided':
        big = np.zeros((meas.shape[0], meas.shape[1] * 2), dtype=meas.dtype)
        big[:, ::2] = meas
        meas = big[:, ::2]
    else:
        meas = np.ascontiguousarray(meas)
    od = {'cond': gen.wrap([case['labs'][c] for c in case['cond']], case['container'])}
    if case['fold'] is not None:
        od['fold'] = gen.wrap([case['fold_labels'][f] for f in case['fold']], case['container'])
    return Dataset(meas, obs_descriptors=od, descriptors={'subj': 's1'})


def call_unb(case, ds):
    kw = dict(method=case['method'], descriptor='cond', weighting=case['weighting'])
    if case['method'] in ('mahalanobis', 'crossnobis') and case['prec'] is not None:
        kw['noise'] = case['prec'].copy()
    if case['fold'] is not None and not case.get('omit_cv'):
        kw['cv_descriptor'] = 'fold'
    if case['method'] in ('poisson', 'poisson_cv'):
        kw.update(prior_lambda=case['lam'], prior_weight=case['w'])
    with warnings.catch_warnings():
        warnings.simplefilter('ignore')
        return calc_rdm_unbalanced(ds, **kw)


def mechanism(case, has_nan, got, meas, labels):
    """name the known mechanism a mismatch is explained by, or 'unexplained'"""
    m = case['method']
    if has_nan and m in ('mahalanobis', 'crossnobis') and case['prec'] is not None:
        # the compiled mahalanobis kernel sums n_dim products over buffers of n_finite entries: the value depends on
        # memory past the buffer and cannot be modelled
        return 'mahalanobis_nan_reads_past_buffer'
    try:
        _, model = ref_unbalanced(meas, labels, case['fold'], m, case['weighting'], case['prec'], case['lam'], case['w'],
                                  kernel=True)
    except Exception:  # noqa
        return 'unexplained'
    if all(close(got[k][0], v, 1e-9, 1e-9) for k, v in model.items()):
        if m == 'correlation' and has_nan:
            return 'correlation_nan_uses_n_dim'
        if case['weighting'] == 'equal' and case['fold'] is None:
            return 'equal_weighting_self_weight_zero'
    return 'unexplained'


def run_case(ctx, case, build):
    rng = ctx.rng
    if os.environ.get('VERIF_C15_SKIP_KNOWN_CRASH') == '1' and case['nan'] != 'none' and case['prec'] is not None \
            and case['method'] in ('mahalanobis', 'crossnobis'):
        ctx.count('skipped_known_crash_class')
        return
    meas = with_nan(rng, case) if case['nan'] != 'none' else np.array(case['meas'])
    if case['nan'] != 'none' and case['vk'] in ('int', 'posint'):
        meas = meas.astype(float)
    has_nan = bool(np.isnan(np.asarray(meas, dtype=float)).any())
    sig = dict(method=case['method'], weighting=case['weighting'], nan=case['nan'] if has_nan else 'none',
               design=case['design'], labels=case['lk'], folds=case['fold_kind'] if case['fold'] is not None else 'none', values=case['vk'], layout=case['layout'],
               prec=case['prec'] is not None, build=build)
    cond_labels = [case['labs'][c] for c in case['cond']]
    wit = lambda **k: dict(method=case['method'], weighting=case['weighting'], cond=cond_labels,  # noqa
                           fold=case['fold'], meas=meas, prec=case['prec'], lam=case['lam'], w=case['w'], **k)
    try:
        labs, want = ref_unbalanced(meas, cond_labels, case['fold'], case['method'], case['weighting'],
                                    case['prec'], case['lam'], case['w'])
    except Degenerate:
        ctx.count('degenerate_skipped')   # correlation of a vector that is constant over the valid channels
        return
    ds = build_ds(case, meas)
    before = np.array(ds.measurements, copy=True)
    ok, rd = ctx.guarded('unbalanced_vs_reference', sig, call_unb, case, ds, data=wit, expect_exc=(ValueError,))
    if not ok:
        if isinstance(rd, ValueError):
            mm_ = np.asarray(meas, dtype=float)
            no_common = any(not np.any(~np.isnan(mm_[i]) & ~np.isnan(mm_[j])) for i in range(len(mm_)) for j in range(i, len(mm_)))
            if 'Invalid shape in axis 0' in str(rd) and case['method'] in ('mahalanobis', 'crossnobis') \
                    and case['prec'] is not None and no_common:
                mech = 'mahalanobis_no_valid_channel_raises'
            else:
                mech = 'unexplained'
            ctx.case('unbalanced_vs_reference', sig)
            ctx.fail('unbalanced_vs_reference', dict(sig, what='raised', mech=mech), f'ValueError: {rd} (an observation pair '
                     f'without a common valid channel must give NaN for that pair, not an error; mechanism: {mech})', wit())
        return
    if build == 'asan':
        ctx.count('sanitized_cases')
    ctx.case('unbalanced_vs_reference', sig, sample={'method': case['method'], 'weighting': case['weighting'],
                                                     'nan': sig['nan'], 'cond': [str(c) for c in cond_labels]})
    if not np.array_equal(np.asarray(ds.measurements), before, equal_nan=True):
        ctx.fail('unbalanced_vs_reference', dict(sig, what='input_modified'), 'calc_rdm_unbalanced modified the dataset', wit())
        return
    got_labels = [ref._key(v) for v in rd.pattern_descriptors['cond']]
    if [str(v) for v in got_labels] != [str(v) for v in labs]:
        ctx.fail('unbalanced_vs_reference', dict(sig, what='label_order'), f'condition labels {got_labels} are not in order '
                 f'of first appearance {labs}', wit())
        return
    _, got = ref.rdms_as_pairs(rd, 'cond')
    finite = [abs(v) for v in want.values() if np.isfinite(v)]
    scale = max([1.0] + finite)
    mech = None
    for k, wv in want.items():
        gv = got[k][0]
        if not close(gv, wv, 1e-9, 1e-10 * scale):
            mech = mechanism(case, has_nan, got, meas, cond_labels)
            ctx.fail('unbalanced_vs_reference', dict(sig, what='value', mech=mech), f'pair {sorted(map(str, k))}: kernel '
                     f'{gv!r}, pair-loop reference {wv!r} (mechanism: {mech})', wit())
            break
    mech = mech or 'none'
    # --- pairs without any valid product are NaN
    if case['nan'] == 'no_valid' and case['weighting'] == 'number':
        ctx.case('no_valid_product_is_nan', sig)
        for k, wv in want.items():
            if np.isnan(wv) and not np.isnan(got[k][0]):
                ctx.fail('no_valid_product_is_nan', dict(sig, what='value', mech=mech), f'pair {sorted(map(str, k))} has no '
                         f'valid product but the kernel returned {got[k][0]!r}', wit())
                break
    # --- a channel missing everywhere has no effect (same result as the dataset without it)
    if case['nan'] == 'channel':
        colnan = np.all(np.isnan(np.asarray(meas, dtype=float)), axis=0)
        if colnan.any() and (~colnan).sum() >= (3 if case['method'] == 'correlation' else 1):
            c2 = dict(case, meas=np.asarray(meas)[:, ~colnan], nan='none',
                      prec=None if case['prec'] is None else case['prec'][np.ix_(~colnan, ~colnan)])
            ok2, rd2 = ctx.guarded('nan_channel_has_no_effect', sig, call_unb, c2, build_ds(c2, c2['meas']), data=wit)
            if ok2:
                ctx.case('nan_channel_has_no_effect', sig)
                _, g2 = ref.rdms_as_pairs(rd2, 'cond')
                for k in g2:
                    if not close(got[k][0], g2[k][0], 1e-9, 1e-10 * scale):
                        ctx.fail('nan_channel_has_no_effect', dict(sig, what='value', mech=mech), f'pair {sorted(map(str, k))}: '
                                 f'{got[k][0]!r} with the all-NaN channel, {g2[k][0]!r} without it', wit())
                        break
    # --- the user corrects a few numbers of the dataset in place and asks again: the RDM is that of the numbers the object
    # holds now, i.e. what a freshly built dataset with the same content gives
    ds_e = build_ds(case, np.array(meas, dtype=float, copy=True), 'C')      # (an object of its own: `ds` is used below)
    mm = ds_e.measurements
    if not has_nan and isinstance(mm, np.ndarray) and mm.dtype == np.float64 and mm.flags.writeable:
        ctx.guarded('unbalanced_vs_reference', sig, call_unb, case, ds_e, data=wit)
        mm[0] = mm[0] * 1.5 + 0.25
        okA, rdA = ctx.guarded('unbalanced_vs_reference', sig, call_unb, case, ds_e, data=wit)
        okB, rdB = ctx.guarded('unbalanced_vs_reference', sig, call_unb, case, build_ds(case, np.array(mm, copy=True), 'C'),
                               data=wit)
        if okA and okB:
            ctx.case('unbalanced_vs_reference', dict(sig, edited_in_place=True))
            _, gA = ref.rdms_as_pairs(rdA, 'cond')
            _, gB = ref.rdms_as_pairs(rdB, 'cond')
            for k in gB:
                if not close(gA[k][0], gB[k][0], 1e-10, 1e-12 * scale):
                    ctx.fail('unbalanced_vs_reference', dict(sig, what='history_dependent', mech='none'), f'after an in-place '
                             f'edit of the measurements, pair {sorted(map(str, k))} is {gA[k][0]!r}; a fresh dataset with '
                             f'the same numbers gives {gB[k][0]!r}', wit())
                    break
    # --- equalities with calc_rdm where theory demands them
    if not has_nan:
        m = case['method']
        # poisson_cv: calc_rdm averages the test observations of a fold before taking the log, so theory demands equality
        # only for one observation per condition and fold ('single'); crossnobis is bilinear: any fold-balanced design
        applies = (case['design'] == 'single') or (m in ('euclidean', 'mahalanobis')) or \
                  (m == 'crossnobis' and case['design'] == 'balanced')
        if case['fold'] is not None and m not in ('crossnobis', 'poisson_cv'):
            applies = False     # calc_rdm has no fold-excluding variant of these four methods to coincide with
        if applies:
            kw = dict(method=m, descriptor='cond')
            if case['prec'] is not None and m in ('mahalanobis', 'crossnobis'):
                kw['noise'] = case['prec'].copy()
            if case['fold'] is not None:
                kw['cv_descriptor'] = 'fold'
            if m in ('poisson', 'poisson_cv'):
                kw.update(prior_lambda=case['lam'], prior_weight=case['w'])
            ok3, rb = ctx.guarded('equals_calc_rdm', sig, calc_rdm, build_ds(case, meas, 'C'), data=wit, **kw)
            if ok3:
                ctx.case('equals_calc_rdm', sig)
                _, gb = ref.rdms_as_pairs(rb, 'cond')
                for k in gb:
                    if not close(got[k][0], gb[k][0], 1e-8, 1e-9 * scale):
                        ctx.fail('equals_calc_rdm', dict(sig, what='value', mech=mech), f'pair {sorted(map(str, k))}: '
                                 f'unbalanced {got[k][0]!r} vs calc_rdm {gb[k][0]!r} ({m}, design {case["design"]})', wit())
                        break
    # --- dtype / memory layout give the same result
    ctx.case('dtype_layout', sig)
    unstable = mech == 'mahalanobis_nan_reads_past_buffer'   # result depends on memory past the buffer
    for lay in ('C', 'F', 'strided'):
        if lay == case['layout']:
            continue
        ok4, r4 = ctx.guarded('dtype_layout', dict(sig, other=lay), call_unb, case, build_ds(case, meas, lay), data=wit)
        if ok4 and not np.array_equal(r4.dissimilarities, rd.dissimilarities, equal_nan=True):
            ctx.fail('dtype_layout', dict(sig, what='layout', mech=mech if unstable else 'none'), f'{lay}-layout gives '
                     f'another result than {case["layout"]}: {maxdiff(r4.dissimilarities, rd.dissimilarities)}', wit(other=lay))
    if np.issubdtype(np.asarray(meas).dtype, np.integer):
        ok5, r5 = ctx.guarded('dtype_layout', sig, call_unb, case, build_ds(case, np.asarray(meas).astype(float)), data=wit)
        if ok5 and not np.array_equal(r5.dissimilarities, rd.dissimilarities, equal_nan=True):
            ctx.fail('dtype_layout', dict(sig, what='dtype', mech='none'), 'integer and float copies of the data give '
                     'different results', wit())
    # --- the single-pair helper agrees with the full computation (cross terms)
    if len(labs) >= 2:
        la, lb = labs[0], labs[1]
        ra = [i for i, c in enumerate(cond_labels) if ref._key(c) == la]
        rb_ = [i for i, c in enumerate(cond_labels) if ref._key(c) == lb]
        mm = np.asarray(meas, dtype=float)
        if case['fold'] is not None:
            cvi = np.array([case['fold'][i] for i in ra], dtype=np.int64)
            cvj = np.array([case['fold'][i] for i in rb_], dtype=np.int64)
        else:
            cvi = np.arange(len(ra), dtype=np.int64)
            cvj = np.arange(len(ra), len(ra) + len(rb_), dtype=np.int64)
        kw = dict(method=case['method'], weighting=case['weighting'], prior_lambda=case['lam'], prior_weight=case['w'])
        if case['prec'] is not None:
            kw['noise'] = case['prec'].copy()
        # integer measurements go to the helper as integers (the property: integer and float inputs give the same result)
        src = np.asarray(meas) if np.issubdtype(np.asarray(meas).dtype, np.integer) else mm
        if src is not mm:
            ctx.count('calc_one_similarity_integer_inputs')
        ok6, one = ctx.guarded('calc_one_similarity', sig, calc_one_similarity, Dataset(src[ra].copy()), Dataset(src[rb_].copy()),
                               cvi, cvj, data=wit, **kw)
        if ok6:
            ctx.case('calc_one_similarity', sig)

            def cross(kernel):
                tot, wsum = 0.0, 0.0
                for i in ra:
                    for j in rb_:
                        if case['fold'] is not None and case['fold'][i] == case['fold'][j]:
                            continue
                        s, ww = pair_term(case['method'], mm[i], mm[j], case['prec'], case['lam'], case['w'], kernel)
                        if ww > 0:
                            tot += s if case['weighting'] == 'number' else s / ww
                            wsum += ww if case['weighting'] == 'number' else 1.0
                return tot / wsum if wsum > 0 else float('nan')
            wantv = cross(False)
            if not close(float(one[0]), wantv, 1e-9, 1e-10 * scale):
                if unstable or (has_nan and case['method'] in ('mahalanobis', 'crossnobis') and case['prec'] is not None):
                    m1 = 'mahalanobis_nan_reads_past_buffer'
                elif has_nan and case['method'] == 'correlation' and close(float(one[0]), cross(True), 1e-9, 1e-9):
                    m1 = 'correlation_nan_uses_n_dim'
                else:
                    m1 = 'unexplained'
                ctx.fail('calc_one_similarity', dict(sig, what='value', mech=m1), f'calc_one_similarity for conditions '
                         f'{la!r},{lb!r} returns {float(one[0])!r}; the average over admissible observation pairs is '
                         f'{wantv!r} (mechanism: {m1})', wit())
            # the helper's weight is the number of valid products (number) / of admissible pairs (equal)
            wsum = 0.0
            for i in ra:
                for j in rb_:
                    if case['fold'] is not None and case['fold'][i] == case['fold'][j]:
                        continue
                    nv = float(np.sum(~np.isnan(mm[i]) & ~np.isnan(mm[j])))
                    if nv > 0:
                        wsum += nv if case['weighting'] == 'number' else 1.0
            maha_nan = has_nan and case['method'] in ('mahalanobis', 'crossnobis') and case['prec'] is not None
            if not close(float(one[1]), wsum, 1e-12, 1e-12):
                ctx.fail('calc_one_similarity', dict(sig, what='weight', mech='mahalanobis_nan_reads_past_buffer' if maha_nan
                                                     else 'unexplained'),
                         f'calc_one_similarity reports weight {float(one[1])!r}; {wsum!r} valid products/pairs exist', wit())


def list_case(ctx, build):
    """a list of datasets gives the per-dataset RDMs in order, each with its own precision matrix"""
    rng = ctx.rng
    method = gen.pick(rng, ['euclidean', 'mahalanobis', 'crossnobis', 'correlation'])
    base = make_case(rng, method)
    base['nan'] = 'none'
    k = int(rng.integers(2, 4))
    cases = [dict(base, meas=gen.values(rng, np.asarray(base['meas']).shape, 'normal'),
                  prec=None if base['prec'] is None else gen.spd(rng, base['n_ch'], 50.0)) for _ in range(k)]
    noise_kind = 'none' if base['prec'] is None else gen.pick(rng, ['shared', 'per_dataset'])
    sig = dict(method=method, weighting=base['weighting'], noise=noise_kind, k=k, build=build)
    dss = [build_ds(c, c['meas']) for c in cases]
    kw = dict(method=method, descriptor='cond', weighting=base['weighting'])
    if base['fold'] is not None:
        kw['cv_descriptor'] = 'fold'
    if noise_kind == 'shared':
        kw['noise'] = cases[0]['prec'].copy()
        cases = [dict(c, prec=cases[0]['prec']) for c in cases]
    elif noise_kind == 'per_dataset':
        kw['noise'] = [c['prec'].copy() for c in cases]
    wit = lambda **x: dict(method=method, cond=[base['labs'][c] for c in base['cond']], fold=base['fold'],  # noqa
                           meas=[c['meas'] for c in cases], prec=[c['prec'] for c in cases], noise=noise_kind, **x)
    ok, rd = ctx.guarded('list_input', sig, calc_rdm_unbalanced, dss, data=wit, **kw)
    if not ok:
        return
    ctx.case('list_input', sig)
    if rd.n_rdm != k:
        ctx.fail('list_input', dict(sig, what='n_rdm', mech='none'), f'{rd.n_rdm} RDMs for {k} datasets', wit())
        return
    for i, c in enumerate(cases):
        ok2, single = ctx.guarded('list_input', sig, call_unb, c, build_ds(c, c['meas']), data=wit)
        if ok2 and not np.array_equal(single.dissimilarities[0], rd.dissimilarities[i], equal_nan=True):
            ctx.fail('list_input', dict(sig, what='value', mech='none'), f'RDM {i} of the list call differs '
                     f'from the RDM of dataset {i} alone (noise: {noise_kind}): '
                     f'{maxdiff(single.dissimilarities[0], rd.dissimilarities[i])}', wit(index=i))
            return


def workload(ctx, build):
    n = ctx.n(120, 2500) if build == 'plain' else ctx.n(80, 1500)
    for it in range(n):
        if ctx.out_of_time():
            ctx.notes.append(f'time budget reached after {it} cases ({build})')
            break
        case = make_case(ctx.rng, METHODS[it % len(METHODS)] if it < 24 else None)
        run_case(ctx, case, build)
        if it % 4 == 0:
            list_case(ctx, build)


def run(ctx):
    if os.environ.get('VERIF_C15_SANITIZED') == '1':
        workload(ctx, 'asan')
        return
    workload(ctx, 'plain')
    if ctx.shard % 4 != 0:   # quick: the one shard; thorough: four sanitized processes with different seeds
        ctx.count('sanitized_cases')
        ctx.count('sanitizer_log_parsed')
        return
    from vlib import sanitize
    b = sanitize.build(True)
    try:
        if not b['ok']:
            ctx.count('sanitizer_unavailable')
            ctx.notes.append('sanitizer build unavailable: ' + str(b['reason']))
            return

        def sanitized_run(tag, skip_known_crash):
            log_prefix = os.path.join(b['scratch'], f'asan-{tag}.log')
            state = os.path.join(b['scratch'], f'state-{tag}.json')
            e = sanitize.sanitizer_env(b['scratch'], log_prefix)
            e['VERIF_C15_SANITIZED'] = '1'
            if skip_known_crash:
                e['VERIF_C15_SKIP_KNOWN_CRASH'] = '1'
            cmd = [env.PY, os.path.join(env.VERIF, 'run_check.py'), 'C15', '--tier', ctx.tier,
                   '--seed', str(ctx.seed * 1000 + ctx.shard), '--shard', '0', '--nshards', '1', '--state-out', state]
            try:
                res = subprocess.run(cmd, env=e, capture_output=True, text=True, timeout=TIME_BUDGET[ctx.tier] * 2)
                tail = (res.stdout + res.stderr)[-300:]
            except subprocess.TimeoutExpired:
                tail = 'watchdog'
            st = json.load(open(state)) if os.path.exists(state) else None
            return st, sanitize.parse_reports(log_prefix), tail

        st, reports, tail = sanitized_run('a', False)
        if st is None:
            # the sanitized process died (a deadly signal is itself a report, parsed below); repeat without the input
            # class of the known crash (F47/F48: mahalanobis kernel with NaN channels) so the rest is still observed
            ctx.count('sanitized_process_died')
            ctx.notes.append('sanitized process died: ' + tail)
            st, reports2, tail = sanitized_run('b', True)
            reports = reports + reports2
        if st is None:
            ctx.count('sanitizer_unavailable')
            ctx.notes.append('second sanitized run produced no state either: ' + tail)
        else:
            for k, v in st['counters'].items():
                ctx.count(k, v)
            ctx.evaluations += st['evaluations']
            for k, v in st['sigs'].items():
                ctx.sigs[k] = ctx.sigs.get(k, 0) + v
            for vio in st['violations']:
                ctx.violations.append(vio)
            for k, v in st['vio_by_sig'].items():
                ctx.vio_by_sig[k] = ctx.vio_by_sig.get(k, 0) + v
            ctx.notes.extend(st['notes'])
        ctx.count('sanitizer_log_parsed')
        ctx.count('sanitizer_report_blocks', sum(r['count'] for r in reports))
        ctx.notes.append('sanitizer reports: ' + json.dumps([{k: r[k] for k in ('kind', 'function', 'access', 'count')}
                                                             for r in reports]))
        seen = set()
        for r in reports:
            key = (r['kind'], str(r['function']), r['access'])
            if key in seen:
                continue
            seen.add(key)
            ctx.fail('sanitizer', dict(build='asan', kind=r['kind'], function=str(r['function']), access=r['access']),
                     f"{r['kind']} ({r['access']}) in {r['function']} at {r['location']}, {r['count']} report block(s)",
                     dict(report=r['text']))
    finally:
        if b.get('scratch'):
            shutil.rmtree(b['scratch'], ignore_errors=True)
