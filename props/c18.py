"""C18  Simulated data reproduce the generating model's RDM.

Monitor: result monitor on the simulation -> estimation loop (make_design, make_dataset, calc_rdm) with the
numpy global RNG re-seeded to replay the same random history under different noise settings.
Oracle: signal x model RDM; design / descriptor laws; same-signal vs fresh-signal; additivity and sqrt(noise)
scaling by seed replay.
"""
import numpy as np

from rsatoolbox.data import Dataset
from rsatoolbox.model import ModelFixed, ModelWeighted
from rsatoolbox.rdm import RDMs, calc_rdm
from rsatoolbox.simulation import make_dataset, make_design
from vlib import gen, ref
from vlib.core import close, maxdiff

LEVEL = 'exploration'
LEVEL_TEXT = ('Seeded exploration of the real simulator in a loop with the real RDM estimator: for Euclidean-embeddable '
              'model RDMs and exact, noise-free signals the estimated squared-Euclidean RDM must equal signal x model '
              'RDM; design vectors, descriptors, same-signal / fresh-signal behaviour and the additivity and '
              'sqrt(noise) scaling of the noise term (by replaying the same seed at noise 0, v, 4v) are asserted. Held '
              'on the K executions observed.')
LEVEL_NOTE = ('Random draws are numpy\'s global RNG under swept seeds (observed, not enumerated). Tolerance 1e-4 relative '
              '(the exact-signal construction factorises the rank-deficient G by LDL with clipped pivots; observed '
              'honest deviations reach 1.3e-6 over 60k cases).')
DESIGN_REF = 'DESIGN.md section 4 / C18'
TECHNIQUE = 'runtime result monitor on the simulate->estimate loop + seed-replay metamorphic checks'
RULE = ('seeded generator over {n_cond 2..8 x n_channel >= n_cond x partitions 1..4 x simulations 1..3 x signal strength x '
        'fixed / weighted model x condition vector / design matrix x noise channel covariance yes/no}; non-trivial: '
        '>= 3 conditions; distinct = configuration signature')
ASSUMPTIONS = ['model RDMs are squared Euclidean distances of random points (embeddable)', 'n_channel >= n_cond',
               'no signal channel covariance for the exact-RDM clause']
REQUIRED = ['check:exact_signal_rdm', 'check:design', 'check:descriptors', 'check:same_signal', 'check:fresh_signal',
            'check:noise_additive_sqrt']
REACH = ['make_design', 'make_dataset', 'make_signal', 'calc_rdm', 'centering', 'indicator']
FAIL_KEYS = ['what', 'cond_input', 'model', 'noise_cov']
TIME_BUDGET = {'quick': 60, 'thorough': 600}


def make_model(rng, n_cond):
    kind = gen.pick(rng, ['fixed', 'weighted', 'fixed_stack', 'interpolate', 'fixed_int'])
    basis = gen.rdm_vectors(rng, 3, n_cond, 'eucl')
    if kind == 'fixed_int':
        # squared distances of points with whole-number coordinates, stored in an integer vector (the library's own tests
        # build fixed models from integer arrays)
        while True:
            pts = rng.integers(-3, 4, size=(n_cond, n_cond))
            d = ((pts[:, None, :] - pts[None, :, :]) ** 2).sum(-1)
            vec = d[np.triu_indices(n_cond, 1)].astype(np.int64)
            if vec.min() > 0:       # distinct points (an all-zero model has no signal to draw afresh)
                break
        return ModelFixed('fi', vec.copy()), None, vec.astype(float), kind
    if kind == 'fixed':
        return ModelFixed('fx', RDMs(basis[:1].copy())), None, basis[0], kind
    if kind == 'fixed_stack':
        # a fixed model built from several RDMs predicts their mean (ModelFixed documents this)
        return ModelFixed('fs', RDMs(basis.copy())), None, basis.mean(axis=0), kind
    if kind == 'interpolate':
        from rsatoolbox.model import ModelInterpolate
        j = int(rng.integers(2))
        theta = np.zeros(3)
        theta[j] = float(rng.uniform(0.2, 0.8))
        theta[j + 1] = 1 - theta[j]
        return ModelInterpolate('ip', RDMs(basis.copy())), theta, theta @ basis, kind
    theta = rng.uniform(0.2, 2.0, size=3)
    return ModelWeighted('wt', RDMs(basis.copy())), theta, theta @ basis, kind


def run_make_signal(ctx):
    """the signal generator called directly with a second-moment matrix stored row- or column-major: the caller's
    matrix is the same afterwards (so a second draw from it, or the caller's own check against it, is not corrupted)"""
    from rsatoolbox.simulation.sim import make_signal
    rng = ctx.rng
    n_cond = int(rng.integers(2, 7))
    n_ch = n_cond + int(rng.integers(0, 8))
    pts = rng.standard_normal((n_cond, n_cond))
    pts = pts - pts.mean(axis=0, keepdims=True)
    G = pts @ pts.T / n_cond + 1e-6 * np.eye(n_cond)
    layout = gen.pick(rng, ['C', 'F'])
    arg = np.asfortranarray(G) if layout == 'F' else np.ascontiguousarray(G)
    sig = dict(cond_input='second_moment', model='none', layout=layout, what='make_signal')
    wit = lambda **k: dict(G=G, n_channel=n_ch, layout=layout, **k)  # noqa: E731
    for draw in range(2):
        np.random.seed(int(rng.integers(2 ** 31)))
        ok, S = ctx.guarded('exact_signal_rdm', sig, make_signal, arg, n_ch, make_exact=True, data=wit)
        if not ok:
            return
        ctx.case('exact_signal_rdm', dict(sig, draw=draw))
        if not np.array_equal(np.asarray(arg), G):
            ctx.fail('exact_signal_rdm', dict(sig, what='input_modified'), f'make_signal altered the ({layout}-ordered) second-'
                     f'moment matrix it was given', wit(draw=draw))
            return
        # (the second moment itself is judged through make_dataset above, with the tolerance the clipped-pivot LDL needs;
        # a direct 1e-6 comparison here fired on the unchanged tree for nearly singular G and was dropped)


def run_case(ctx):
    rng = ctx.rng
    n_cond = int(rng.integers(2, 9))
    n_part = int(rng.integers(1, 5))
    n_sim = int(rng.integers(1, 4))
    n_ch = n_cond + int(rng.integers(0, 12))
    signal = float(gen.pick(rng, [0.25, 1.0, 2.5, 7.0]))
    model, theta, pred, mkind = make_model(rng, n_cond)
    used_before = False
    if theta is not None and rng.integers(2):
        # the model object has simulated data before, at other parameters (a sweep over parameter values reuses one model)
        other = theta[::-1].copy() if not np.array_equal(theta[::-1], theta) else theta * 0.5
        make_dataset(model, other, np.arange(n_cond), n_channel=n_cond + 1, noise=0, use_exact_signal=True)
        used_before = True
    cond_input = gen.pick(rng, ['vector', 'matrix'])
    sig = dict(model=mkind, cond_input=cond_input, n_part=n_part, n_sim=n_sim, small=n_cond <= 2, square=n_ch == n_cond)
    # ---- design
    if rng.integers(8) == 0:
        # sizes held in a narrow unsigned type (read from a header) whose product does not fit that type
        nc8, np8 = int(rng.integers(17, 30)), int(rng.integers(10, 17))
        cv8, pv8 = make_design(np.uint8(nc8), np.uint8(np8))
        ctx.case('design', dict(sig, sizes='uint8'))
        ok8 = len(cv8) == nc8 * np8 == len(pv8) and all(
            sorted(int(c) for c, q in zip(cv8, pv8) if q == p) == list(range(nc8)) for p in range(np8))
        if not ok8:
            ctx.fail('design', dict(sig, what='design', sizes='uint8'), f'design for {nc8} conditions x {np8} partitions given '
                     f'as np.uint8 has {len(cv8)} / {len(pv8)} entries', dict(n_cond=nc8, n_part=np8))
            return
    # the numbers of conditions / partitions as Python ints, numpy integers or 0-d arrays
    held = [lambda n: n, lambda n: np.int64(n), lambda n: np.array(n)][int(rng.integers(3))]
    cond_vec, part_vec = make_design(held(n_cond), held(n_part))
    ctx.case('design', sig)
    ok = len(cond_vec) == n_cond * n_part == len(part_vec)
    for p in range(n_part):
        rows = [c for c, q in zip(cond_vec, part_vec) if q == p]
        ok = ok and sorted(int(c) for c in rows) == list(range(n_cond))
    if not ok:
        ctx.fail('design', dict(sig, what='design'), f'design does not list every condition once per partition: '
                 f'{cond_vec.tolist()} / {part_vec.tolist()}', dict(n_cond=n_cond, n_part=n_part))
        return
    # trial order: as designed, or randomised (conditions then do not first appear in ascending order)
    order = gen.pick(rng, ['design', 'shuffled'])
    if order == 'shuffled':
        cond_vec = cond_vec[rng.permutation(len(cond_vec))]
    sig['order'] = order
    labels = [int(c) for c in cond_vec]
    # condition labels in a condition VECTOR are arbitrary codes (1-based, experiment codes, non-integers): the k-th
    # smallest label is the k-th condition of the model
    coding = gen.pick(rng, ['zero_based', 'zero_based', 'one_based', 'codes', 'fractional']) if cond_input == 'vector' \
        else 'zero_based'
    code = {'zero_based': lambda k: k, 'one_based': lambda k: k + 1, 'codes': lambda k: 10 * k + 3,
            'fractional': lambda k: k + 0.5}[coding]
    sig['coding'] = coding
    if coding != 'zero_based':
        cond_vec = np.array([code(int(c)) for c in cond_vec])
    arg = cond_vec if cond_input == 'vector' else np.eye(n_cond)[labels]
    wit = lambda **k: dict(pred=pred, theta=theta, n_channel=n_ch, n_part=n_part, n_sim=n_sim, signal=signal,  # noqa
                           cond_input=cond_input, **k)
    seed = int(rng.integers(2 ** 31))

    # every other case hands all arguments over by position, in the documented order
    order = ['n_channel', 'n_sim', 'signal', 'noise', 'signal_cov_channel', 'noise_cov_channel', 'noise_cov_trial',
             'use_exact_signal', 'use_same_signal']
    defaults = dict(n_channel=30, n_sim=1, signal=1, noise=1, signal_cov_channel=None, noise_cov_channel=None,
                    noise_cov_trial=None, use_exact_signal=False, use_same_signal=False)
    positional = bool(seed % 2)

    def sim(**kw):
        np.random.seed(seed)
        if positional:
            full = dict(defaults, n_channel=n_ch, n_sim=n_sim, signal=signal, **kw)
            return make_dataset(model, theta, arg.copy(), *[full[k] for k in order])
        return make_dataset(model, theta, arg.copy(), n_channel=n_ch, n_sim=n_sim, signal=signal, **kw)
    ok, dss = ctx.guarded('exact_signal_rdm', sig, sim, noise=0, use_exact_signal=True, data=wit)
    if not ok:
        return
    ctx.case('exact_signal_rdm', sig, sample={'n_cond': n_cond, 'n_channel': n_ch, 'n_part': n_part, 'signal': signal,
                                              'model': mkind, 'cond_input': cond_input})
    if len(dss) != n_sim:
        ctx.fail('exact_signal_rdm', dict(sig, what='n_sim'), f'{len(dss)} datasets for n_sim={n_sim}', wit())
        return
    for s, ds in enumerate(dss):
        if cond_input == 'vector':
            ok, rd = ctx.guarded('exact_signal_rdm', dict(sig, what='estimation_raised'), calc_rdm, ds,
                                 method='euclidean', descriptor='cond_vec', data=wit)
            if not ok:
                return
        else:
            rd = calc_rdm(Dataset(ds.measurements.copy(), obs_descriptors={'cond_vec': labels}), method='euclidean',
                          descriptor='cond_vec')
        lab, got = ref.rdms_as_pairs(rd, 'cond_vec')
        iu = np.triu_indices(n_cond, 1)
        for col, (a, b) in enumerate(zip(iu[0], iu[1])):
            want = signal * pred[col]
            ka, kb = code(int(a)), code(int(b))
            g = got[frozenset((float(ka), float(kb)))][0] if frozenset((float(ka), float(kb))) in got else \
                got[frozenset((ka, kb))][0]
            if not close(g, want, 1e-4, 1e-9 * (1 + abs(want))):
                ctx.fail('exact_signal_rdm', dict(sig, what='rdm'), f'simulation {s}: distance between conditions {a},{b} '
                         f'is {g!r}, signal x model RDM = {want!r}', wit(sim=s))
                return
        # descriptors
        ctx.case('descriptors', sig)
        cv = np.asarray(ds.obs_descriptors['cond_vec'])
        if cv.shape != np.asarray(arg).shape or not np.array_equal(cv, arg):
            ctx.fail('descriptors', dict(sig, what='cond_vec'), 'dataset does not carry the condition vector', wit())
            return
        d = ds.descriptors
        th_ok = (theta is None and d.get('theta') is None) or (theta is not None and np.array_equal(np.asarray(d.get('theta')), theta))
        if d.get('signal') != signal or d.get('noise') != 0 or d.get('model') != model.name or not th_ok:
            ctx.fail('descriptors', dict(sig, what='parameters'), f'simulation parameters not carried: {d}', wit())
            return
    # ---- same signal vs fresh signal
    if n_sim >= 2:
        ok, same = ctx.guarded('same_signal', sig, sim, noise=0, use_same_signal=True, data=wit)
        if ok:
            ctx.case('same_signal', sig)
            if not all(np.array_equal(same[0].measurements, d.measurements) for d in same[1:]):
                ctx.fail('same_signal', dict(sig, what='signal_differs'), 'use_same_signal=True but the noise-free data of '
                         'the simulations differ', wit())
        ctx.case('fresh_signal', sig)
        if any(np.array_equal(dss[0].measurements, d.measurements) for d in dss[1:]):
            ctx.fail('fresh_signal', dict(sig, what='signal_reused'), 'default (fresh signal) but two simulations have '
                     'identical noise-free data', wit())
    # ---- noise additive, scales with sqrt(noise variance): replay the seed with noise 0, v, 4v
    v = float(gen.pick(rng, [0.3, 1.0, 2.0]))
    nck = gen.pick(rng, ['none', 'dense', 'dense', 'diagonal'])
    chvar = rng.uniform(0.2, 5.0, size=n_ch) if rng.integers(2) else np.full(n_ch, float(rng.uniform(0.2, 5.0)))
    ncov = None if nck == 'none' else (gen.spd(rng, n_ch, 20.0) if nck == 'dense' else np.diag(chvar))
    s2 = dict(sig, noise_cov=ncov is not None)
    exact = bool(rng.integers(2))
    try:
        d0 = sim(noise=0, use_exact_signal=exact, noise_cov_channel=ncov)
        d1 = sim(noise=v, use_exact_signal=exact, noise_cov_channel=ncov)
        d4 = sim(noise=4 * v, use_exact_signal=exact, noise_cov_channel=ncov)
    except Exception as exc:
        ctx.fail('noise_additive_sqrt', dict(s2, what='raised', exception=type(exc).__name__), repr(exc), wit(noise=v))
        return
    ctx.case('noise_additive_sqrt', s2)
    if nck == 'diagonal':
        # independent channels with their own variances (or one common variance): the noise term is the white noise term
        # of the same random draws with channel j scaled by the square root of its variance
        try:
            w0 = sim(noise=0, use_exact_signal=exact)
            w1 = sim(noise=v, use_exact_signal=exact)
        except Exception as exc:
            ctx.fail('noise_additive_sqrt', dict(s2, what='raised', exception=type(exc).__name__), repr(exc), wit(noise=v))
            return
        for s in range(n_sim):
            ew = w1[s].measurements - w0[s].measurements
            e1 = d1[s].measurements - d0[s].measurements
            if not close(e1, ew * np.sqrt(chvar)[None, :], 1e-8, 1e-9):
                ctx.fail('noise_additive_sqrt', dict(s2, what='channel_variances'), f'with a diagonal channel covariance '
                         f'the noise of channel j is not sqrt(variance_j) times the white noise of the same draws: max '
                         f'deviation {maxdiff(e1, ew * np.sqrt(chvar)[None, :])}', wit(noise=v, channel_variances=chvar))
                return
    for s in range(n_sim):
        e1 = d1[s].measurements - d0[s].measurements
        e4 = d4[s].measurements - d0[s].measurements
        if not np.any(np.abs(e1) > 1e-9):
            ctx.fail('noise_additive_sqrt', dict(s2, what='no_noise'), f'noise={v} added nothing to the data', wit(noise=v))
            return
        if not close(e4, 2 * e1, 1e-8, 1e-9):
            ctx.fail('noise_additive_sqrt', dict(s2, what='scaling'), f'noise term at variance 4v is not twice the noise '
                     f'term at variance v (same random draws): max deviation {maxdiff(e4, 2 * e1)}', wit(noise=v))
            return
        # the noise term has the requested scale: sample variance of white noise close to v (loose, many entries)
        if ncov is None and e1.size >= 400:
            var = float(np.var(e1))
            if not 0.5 * v < var < 2.0 * v:
                ctx.fail('noise_additive_sqrt', dict(s2, what='variance'), f'noise term has variance {var}, requested {v}',
                         wit(noise=v))
                return


def run(ctx):
    n = ctx.n(150, 4000)
    for it in range(n):
        if ctx.out_of_time():
            ctx.notes.append(f'time budget reached after {it} cases')
            break
        run_case(ctx)
        if it % 5 == 0:
            run_make_signal(ctx)
