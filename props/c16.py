"""C16  Saving and loading returns an equal object for every type and file format.

Monitor: history checker on save / load / overwrite sequences in a scratch directory, with a path -> object
model of what every file must contain.
Oracle: field-wise equality (arrays bitwise incl. NaN/inf positions, descriptor keys and element-wise values,
classes, names, predictions, test outputs) AND the library's own ==; in-memory fingerprint unchanged by saving;
existing-HDF5 guard (must raise, file bytes unchanged) and overwrite semantics.
"""
import copy
import hashlib
import os
import shutil
import tempfile

import numpy as np

from rsatoolbox.data import Dataset, TemporalDataset, load_dataset
from rsatoolbox.inference import Result, eval_fixed, load_results
from rsatoolbox.io.hdf5 import read_dict_hdf5, write_dict_hdf5
from rsatoolbox.io.pkl import read_dict_pkl, write_dict_pkl
from rsatoolbox.model import ModelFixed, ModelInterpolate, ModelSelect, ModelWeighted, model_from_dict
from rsatoolbox.rdm import RDMs, load_rdm
from vlib import gen
from vlib.fingerprint import fingerprint

LEVEL = 'exploration'
LEVEL_TEXT = ('Seeded exploration of save/load histories on the real io layer: objects of the five kinds (incl. '
              'objects produced by structural operations, NaN/inf values, unicode and matrix-valued descriptors) are '
              'written as HDF5 and pickle, by path and by open handle, onto fresh and existing files with overwrite '
              'on and off; after every step the file named by the model must load to an object that is field-wise '
              'equal and == to the one last saved there, the in-memory object must be unchanged and a refused save '
              'must leave the file bytes untouched. Held on the K histories observed.')
LEVEL_NOTE = 'Scratch directory via mkdtemp, removed afterwards. Descriptor values are compared by value (the hdf5 ' \
             'layer returns lists / numpy scalars for lists / python scalars).'
DESIGN_REF = 'DESIGN.md section 4 / C16'
TECHNIQUE = 'history checker over save/load/overwrite sequences with a path->object model + field-wise and == equality'
RULE = ('seeded generator over {object kind (RDMs / Dataset / TemporalDataset / 4 model classes / Result) x file type '
        'x target (path / open handle) x existing file yes/no x overwrite on/off x descriptor value classes (int, '
        'float, str ascii/unicode, bool, list/ndarray, matrix, None measure) x NaN/inf values x prior structural ops}; '
        'each save+load is a case; distinct = configuration signature')
ASSUMPTIONS = ['file names end in .h5 / .pkl so that the loaders can infer the type']
KINDS = ['RDMs', 'Dataset', 'TemporalDataset', 'Model', 'Result']
REQUIRED = ['check:roundtrip:' + k for k in KINDS] + ['check:existing_hdf5_refused', 'check:overwrite_replaces',
                                                     'check:memory_unchanged', 'check:handle_target', 'unicode_cases',
                                                     'matrix_descriptor_cases', 'structural_history_cases']
REACH = ['write_dict_hdf5', '_write_to_group', '_write_list', 'read_dict_hdf5', '_read_group', 'write_dict_pkl',
         'read_dict_pkl', 'remove_file', 'RDMs.to_dict', 'rdms_from_dict', 'dataset_from_dict', 'model_from_dict',
         'Result.to_dict', 'result_from_dict', 'load_rdm', 'load_dataset', 'load_results', 'RDMs.save', 'Result.save']
FAIL_KEYS = ['kind', 'what', 'file_type', 'target', 'feature']
TIME_BUDGET = {'quick': 80, 'thorough': 800}


def veq(a, b):
    """value equality of descriptor values / arrays (container type and numpy-vs-python scalars irrelevant)"""
    if isinstance(a, dict) or isinstance(b, dict):
        if not (isinstance(a, dict) and isinstance(b, dict)) or set(map(str, a)) != set(map(str, b)):
            return False
        return all(veq(a[k], b[k] if k in b else b[str(k)]) for k in a)
    if a is None or b is None:
        return a is None and b is None
    try:
        aa, bb = np.asarray(a), np.asarray(b)
    except Exception:
        return a == b
    if aa.shape != bb.shape:
        return False
    if aa.dtype.kind in 'fc' or bb.dtype.kind in 'fc':
        try:
            return bool(np.array_equal(aa.astype(float), bb.astype(float), equal_nan=True))
        except (TypeError, ValueError):
            return False
    if aa.dtype.kind in 'USO' or bb.dtype.kind in 'USO':
        return [str(x) for x in aa.ravel().tolist()] == [str(x) for x in bb.ravel().tolist()]
    return bool(np.array_equal(aa, bb))


def same_rdms(a, b):
    if not isinstance(b, RDMs):
        return 'type'
    if not np.array_equal(a.dissimilarities, b.dissimilarities, equal_nan=True):
        return 'dissimilarities'
    if a.dissimilarity_measure != b.dissimilarity_measure:
        return f'measure {a.dissimilarity_measure!r} -> {b.dissimilarity_measure!r}'
    for name in ('descriptors', 'rdm_descriptors', 'pattern_descriptors'):
        if not veq(getattr(a, name), getattr(b, name)):
            return f'{name}: {getattr(a, name)!r} -> {getattr(b, name)!r}'[:400]
    return None


def same_dataset(a, b):
    if type(a) is not type(b):
        return f'type {type(a).__name__} -> {type(b).__name__}'
    if not np.array_equal(a.measurements, b.measurements, equal_nan=True):
        return 'measurements'
    names = ['descriptors', 'obs_descriptors', 'channel_descriptors'] + (['time_descriptors'] if isinstance(a, TemporalDataset) else [])
    for name in names:
        if not veq(getattr(a, name), getattr(b, name)):
            return f'{name}: {getattr(a, name)!r} -> {getattr(b, name)!r}'[:400]
    return None


def same_model(a, b, theta):
    if type(a) is not type(b) or a.name != b.name:
        return f'class/name {type(a).__name__}/{a.name} -> {type(b).__name__}/{b.name}'
    pa = np.asarray(a.predict(theta) if theta is not None else a.predict())
    pb = np.asarray(b.predict(theta) if theta is not None else b.predict())
    if not np.array_equal(pa, pb, equal_nan=True):
        return 'predictions'
    return same_rdms(a.rdm_obj, b.rdm_obj)


def same_result(a, b):
    if not isinstance(b, Result):
        return 'type'
    for f in ('evaluations', 'noise_ceiling', 'variances'):
        x, y = getattr(a, f), getattr(b, f)
        if (x is None) != (y is None) or (x is not None and not np.array_equal(np.asarray(x), np.asarray(y), equal_nan=True)):
            return f
    if not veq(a.dof, b.dof) or str(a.method) != str(b.method) or str(a.cv_method) != str(b.cv_method):
        return f'dof/method/cv_method: {a.dof},{a.method},{a.cv_method} -> {b.dof},{b.method},{b.cv_method}'
    if not veq(a.n_rdm, b.n_rdm) or not veq(a.n_pattern, b.n_pattern):
        return 'n_rdm/n_pattern'
    if len(a.models) != len(b.models):
        return 'number of models'
    for i, (ma, mb) in enumerate(zip(a.models, b.models)):
        err = same_model(ma, mb, None if isinstance(ma, ModelFixed) else (0 if isinstance(ma, ModelSelect) else
                                                                        np.ones(ma.n_param) / ma.n_param))
        if err:
            return f'model {i}: {err}'
    for t in ('t-test',):
        try:
            ta = a.test_all(t)
        except Exception as exc_a:       # e.g. a result of a single RDM (dof 0) has no t-tests: then neither has its copy
            try:
                b.test_all(t)
            except Exception as exc_b:
                if type(exc_a) is type(exc_b):
                    continue
            return f'test outputs: the original raises {type(exc_a).__name__}, the loaded object does not'
        tb = b.test_all(t)
        if not all(np.array_equal(np.asarray(x), np.asarray(y), equal_nan=True) for x, y in zip(ta, tb)):
            return 'test outputs differ'
    return None


# ---------------------------------------------------------------------------
def make_rdms(rng, feats):
    n_rdm, n_cond = int(rng.integers(1, 5)), int(rng.integers(3, 7))
    v = gen.rdm_vectors(rng, n_rdm, n_cond, gen.pick(rng, ['pos', 'neg', 'ties']))
    if 'nan' in feats:
        v[0, 0] = np.nan
    if 'inf' in feats:
        v[-1, -1] = np.inf
    cont = gen.pick(rng, gen.CONTAINERS)
    names = ['a', 'b', 'c', 'd', 'e', 'f'][:n_cond]
    if 'unicode' in feats:
        names = ['äpfel', 'børd', '猫', 'd', 'é', 'f'][:n_cond]
    desc = {'exp': 'pilot', 'n': 3, 'rate': 0.5, 'flag': True}
    if 'matrix' in feats:
        desc['noise'] = gen.spd(rng, 3, 10.)
    if 'unicode' in feats:
        desc['lab'] = 'Universität'
    if 'empty' in feats:
        desc['excluded'] = np.array([], dtype=int)     # a zero-length array is a value, not an absent one
    if 'none_measure' in feats:
        desc['session'] = None                         # a descriptor that is present and has no value
    if 'tuple' in feats:
        desc['coord'] = (1.5, -2.0, 30.0)              # a few numbers given as a tuple
        desc['shape'] = (4, 3)
    rd = {'subj': gen.wrap([f's{i}' for i in range(n_rdm)], cont), 'age': gen.wrap([20 + i for i in range(n_rdm)], cont),
          'w': gen.wrap([0.5 * i for i in range(n_rdm)], cont)}
    pd = {'cond': gen.wrap(names, cont), 'cat': gen.wrap([i % 2 for i in range(n_cond)], cont),
          'flag': gen.wrap([bool(i % 2) for i in range(n_cond)], cont)}
    meas = None if 'none_measure' in feats else gen.pick(rng, ['euclidean', 'squared mahalanobis'])
    if 'tuple' in feats:
        rd['visit'] = tuple(3 * i + 1 for i in range(n_rdm))      # per-item values as a tuple
        pd['slot'] = tuple(0.25 * i for i in range(n_cond))
    r = RDMs(v, dissimilarity_measure=meas, descriptors=desc, rdm_descriptors=rd, pattern_descriptors=pd)
    if 'empty' in feats and rng.integers(2):
        return r.subset('subj', 'nobody')      # an object emptied by a selection without match
    if 'history' in feats:
        ops = int(rng.integers(1, 4))
        for i_op in range(ops):
            o = gen.pick(rng, ['subset_pattern', 'reorder', 'subsample', 'sort_noreindex', 'getitem', 'subsample_pattern'])
            if i_op == 0 and rng.integers(2):
                o = gen.pick(rng, ['reorder', 'sort_noreindex'])   # in-place structural operations rebuild descriptors
            if o == 'subset_pattern' and r.n_cond > 3:
                r = r.subset_pattern('cat', 0) if rng.integers(2) and sum(1 for c in r.pattern_descriptors['cat'] if c == 0) >= 2 \
                    else r.subset_pattern('index', list(r.pattern_descriptors['index'])[1:])
            elif o == 'reorder':
                r.reorder([int(i) for i in rng.permutation(r.n_cond)])
            elif o == 'subsample':
                r = r.subsample('index', [int(i) for i in rng.integers(0, r.n_rdm, size=r.n_rdm + 1)
                                          if i in list(r.rdm_descriptors['index'])] or [r.rdm_descriptors['index'][0]])
            elif o == 'sort_noreindex':
                r.sort_by(reindex=False, cond='alpha')
            elif o == 'getitem':
                r = r[int(rng.integers(r.n_rdm))]
            elif o == 'subsample_pattern':
                idx = list(r.pattern_descriptors['index'])
                r = r.subsample_pattern('index', [idx[0], idx[0]] + idx[1:])
    return r


def make_dataset(rng, feats, temporal=False):
    n_obs, n_ch, n_t = int(rng.integers(1, 7)), int(rng.integers(1, 5)), int(rng.integers(1, 4))
    m = rng.standard_normal((n_obs, n_ch, n_t) if temporal else (n_obs, n_ch))
    if 'nan' in feats:
        m.flat[0] = np.nan
    if 'inf' in feats:
        m.flat[-1] = -np.inf
    store = int(rng.integers(6))
    if store == 0:
        m = m.astype('>f8')                 # recordings read from a big-endian file (np.fromfile / memmap)
    elif store == 1:
        m = np.asfortranarray(m)            # column-major storage
    cont = gen.pick(rng, gen.CONTAINERS)
    lab = ['kål', 'b', 'α'] if 'unicode' in feats else ['x', 'y', 'z']
    od = {'cond': gen.wrap([lab[i % 3] for i in range(n_obs)], cont), 'run': gen.wrap([i // 2 for i in range(n_obs)], cont)}
    cd = {'ch': gen.wrap([f'v{i}' for i in range(n_ch)], cont), 'x': gen.wrap([0.5 * i for i in range(n_ch)], cont)}
    desc = {'subj': 's1', 'sess': 2}
    if 'unicode' in feats:
        desc['site'] = 'Zürich'
    if 'empty' in feats:
        desc['excluded'] = np.array([], dtype=int)
    if 'none_measure' in feats:
        desc['session'] = None
    if 'tuple' in feats:
        desc['coord'] = (1.5, -2.0, 30.0)
        desc['shape'] = (4, 3)
    if temporal:
        d = TemporalDataset(m, descriptors=desc, obs_descriptors=od, channel_descriptors=cd,
                            time_descriptors={'time': np.arange(n_t) * 0.1})
    else:
        d = Dataset(m, descriptors=desc, obs_descriptors=od, channel_descriptors=cd)
    if 'empty' in feats and rng.integers(2):
        return d.subset_obs('run', 99)         # no observation matches
    if 'history' in feats and n_obs >= 2:
        d.sort_by('cond')
        d = d.subset_obs('run', list(dict.fromkeys(d.obs_descriptors['run']))[:2])
        if temporal and d.n_time > 1 and rng.integers(2):
            d = d.subset_time('time', 0.0, 0.1)
    return d


def make_model(rng, feats, kind=None):
    kind = kind or gen.pick(rng, ['fixed', 'weighted', 'select', 'interpolate'])
    r = make_rdms(rng, [f for f in feats if f not in ('history', 'nan', 'inf', 'empty')])   # a model needs RDMs
    if kind == 'fixed':
        return ModelFixed('fix µ' if 'unicode' in feats else 'fix', r[0]), None
    cls = {'weighted': ModelWeighted, 'select': ModelSelect, 'interpolate': ModelInterpolate}[kind]
    m = cls(kind, r)
    theta = 0 if kind == 'select' else np.ones(m.n_param) / m.n_param
    return m, theta


def make_result(rng, feats):
    n_cond = int(rng.integers(4, 7))
    # (a single data RDM -- one subject -- gives a result with dof 0: a value like any other)
    data = RDMs(gen.rdm_vectors(rng, int(gen.pick(rng, [1, 3, 4, 5])), n_cond, 'pos'))
    kinds = ['fixed'] + [gen.pick(rng, ['fixed', 'weighted', 'select']) for _ in range(int(rng.integers(0, 3)))]
    if 'many_models' in feats:
        kinds = ['fixed'] * 12
    models = []
    for i, k in enumerate(kinds):
        b = RDMs(gen.rdm_vectors(rng, 1 if k == 'fixed' else 3, n_cond, 'pos'))
        models.append({'fixed': ModelFixed, 'weighted': ModelWeighted, 'select': ModelSelect}[k](f'm{i}', b))
    theta = [None if k == 'fixed' else (1 if k == 'select' else np.array([.2, .3, .5])) for k in kinds]
    if 'many_models' not in feats and all(k == 'fixed' for k in kinds) and rng.integers(2):
        # a result with a stack of three covariances (RDM, condition and joint bootstrap) whose correction depends on
        # the number of RDMs AND the number of conditions -- which differ
        from rsatoolbox.inference import eval_dual_bootstrap
        n_r = n_cond + int(rng.integers(2, 5))
        data = RDMs(gen.rdm_vectors(rng, n_r, n_cond, 'pos'))
        np.random.seed(int(rng.integers(2 ** 31)))
        which = gen.pick(rng, ['dual', 'pattern', 'rdm'])
        if which == 'dual':
            return eval_dual_bootstrap(models, data, method='cosine', N=8, k_pattern=1, k_rdm=1)
        # single-factor bootstraps: the other factor's sample size is recorded as absent (None), which matters for the
        # variance correction and hence for every test output of the loaded object
        from rsatoolbox.inference import eval_bootstrap_pattern, eval_bootstrap_rdm
        return (eval_bootstrap_pattern if which == 'pattern' else eval_bootstrap_rdm)(models, data, method='cosine', N=8)
    return eval_fixed(models, data, theta=theta, method=gen.pick(rng, ['cosine', 'corr']))


def file_hash(path):
    with open(path, 'rb') as f:
        return hashlib.sha256(f.read()).hexdigest()


def save_obj(kind, obj, target, ftype, overwrite):
    if kind == 'Model':
        d = obj.to_dict()
        if overwrite:
            from rsatoolbox.util.file_io import remove_file
            remove_file(target)
        (write_dict_hdf5 if ftype == 'hdf5' else write_dict_pkl)(target, d)
    else:
        obj.save(target, file_type=ftype, overwrite=overwrite)


def load_obj(kind, path, ftype):
    if kind == 'RDMs':
        return load_rdm(path)
    if kind in ('Dataset', 'TemporalDataset'):
        return load_dataset(path)
    if kind == 'Result':
        return load_results(path)
    return model_from_dict((read_dict_hdf5 if ftype == 'hdf5' else read_dict_pkl)(path))


def compare_obj(kind, a, b, theta=None):
    if kind == 'RDMs':
        return same_rdms(a, b)
    if kind in ('Dataset', 'TemporalDataset'):
        return same_dataset(a, b)
    if kind == 'Result':
        return same_result(a, b)
    return same_model(a, b, theta)


def run_history(ctx, scratch, kind):
    rng = ctx.rng
    feats = [f for f in ('nan', 'inf', 'unicode', 'matrix', 'none_measure', 'history', 'empty', 'tuple')
             if rng.integers(3 if f == 'history' else 4) == 0]
    if kind == 'Result' and rng.integers(6) == 0:
        feats.append('many_models')
    if 'unicode' in feats:
        ctx.count('unicode_cases')
    if 'matrix' in feats and kind == 'RDMs':
        ctx.count('matrix_descriptor_cases')
    if 'history' in feats and kind in ('RDMs', 'Dataset', 'TemporalDataset'):
        ctx.count('structural_history_cases')

    def mk():
        if kind == 'RDMs':
            return make_rdms(rng, feats), None
        if kind == 'Dataset':
            return make_dataset(rng, feats), None
        if kind == 'TemporalDataset':
            return make_dataset(rng, feats, True), None
        if kind == 'Model':
            return make_model(rng, feats)
        return make_result(rng, feats), None
    ftype = gen.pick(rng, ['hdf5', 'pkl'])
    ext = '.h5' if ftype == 'hdf5' else '.pkl'
    path = os.path.join(scratch, f'{kind}_{ctx.evaluations}_{int(rng.integers(1e9))}{ext}')
    model_of_file = None     # (object, theta) the file must contain
    n_steps = int(rng.integers(1, 4))
    prev = None
    for step in range(n_steps):
        try:
            if prev is not None and kind in ('RDMs', 'Dataset', 'TemporalDataset') and rng.integers(2):
                # the object saved a moment ago is relabelled in place (string labels held in numpy arrays are rotated)
                # and saved again: the file must hold the labels the object has NOW
                obj, theta = prev
                n_edit = 0
                for dname in ('rdm_descriptors', 'pattern_descriptors', 'obs_descriptors', 'channel_descriptors'):
                    for key, val in (getattr(obj, dname, None) or {}).items():
                        if isinstance(val, np.ndarray) and val.dtype.kind == 'U' and len(set(val.tolist())) > 1:
                            val[:] = np.roll(val, 1)
                            n_edit += 1
                # ... or its items are reordered in place (conditions of an RDMs object, observations of a dataset)
                if kind == 'RDMs' and obj.n_cond >= 2 and rng.integers(2):
                    obj.reorder(np.array([int(i) for i in rng.permutation(obj.n_cond)]))
                    n_edit += 1
                elif kind in ('Dataset', 'TemporalDataset') and obj.n_obs >= 2 and rng.integers(2):
                    obj.sort_by('run' if rng.integers(2) else 'cond')
                    n_edit += 1
                ctx.count('objects_relabelled_in_place_between_saves', 1 if n_edit else 0)
            else:
                obj, theta = mk()
            prev = (obj, theta)
        except Exception as exc:
            ctx.notes.append(f'generator problem for {kind}: {exc!r}')
            return
        target_kind = gen.pick(rng, ['path', 'path', 'pathlib', 'handle'])   # str path, pathlib.Path, open file
        overwrite = bool(rng.integers(2)) if os.path.exists(path) else bool(rng.integers(3) == 0)
        exists = os.path.exists(path)
        sig = dict(kind=kind, file_type=ftype, target=target_kind, existing=exists, overwrite=overwrite,
                   feature='+'.join(sorted(feats)) or 'plain')
        wit = lambda **k: dict(kind=kind, file_type=ftype, target=target_kind, existing=exists, overwrite=overwrite,  # noqa
                               features=feats, step=step, obj=repr(obj)[:1500], **k)
        fp_before = fingerprint(obj) if kind != 'Model' else fingerprint(obj)
        h_before = file_hash(path) if exists else None
        raised = None
        handle = None
        try:
            if target_kind == 'handle':
                handle = open(path, 'r+b' if exists else 'w+b')
                target = handle
            elif target_kind == 'pathlib':
                import pathlib
                target = pathlib.Path(path)
            else:
                target = path
            save_obj(kind, obj, target, ftype, overwrite)
        except Exception as exc:
            raised = exc.with_traceback(None)   # the traceback would keep the library's h5py.File on our handle alive
        finally:
            if handle is not None:
                import gc
                gc.collect()   # the library's h5py.File on the caller's handle is closed by the collector; close ours afterwards
                try:
                    handle.close()
                except Exception:
                    pass
        import gc
        gc.collect()   # h5py / pickle handles opened by the library are closed by the garbage collector
        # in-memory object unchanged by saving
        ctx.case('memory_unchanged', sig)
        if fingerprint(obj) != fp_before:
            ctx.fail('memory_unchanged', dict(sig, what='object_modified_by_save'), f'saving a {kind} changed the '
                     f'in-memory object', wit())
            return
        must_refuse = exists and ftype == 'hdf5' and not overwrite and target_kind in ('path', 'pathlib')
        if must_refuse:
            ctx.case('existing_hdf5_refused', sig)
            if raised is None:
                ctx.fail('existing_hdf5_refused', dict(sig, what='not_refused'), 'saving onto an existing HDF5 path '
                         'without overwrite did not raise', wit())
                return
            if file_hash(path) != h_before:
                ctx.fail('existing_hdf5_refused', dict(sig, what='file_changed'), 'a refused save changed the file', wit())
                return
            continue
        if raised is not None:
            if exists and not overwrite and target_kind == 'handle' and ftype == 'hdf5':
                ctx.count('rejected_append_to_existing_handle')   # h5py cannot create objects that already exist
                return
            ctx.fail(f'roundtrip:{kind}', dict(sig, what='save_raised', exception=type(raised).__name__),
                     f'save raised {type(raised).__name__}: {raised}', wit())
            return
        if exists and not overwrite and ftype == 'hdf5' and target_kind == 'handle':
            ctx.count('rejected_append_to_existing_handle')
            return
        model_of_file = (obj, theta)
        if target_kind == 'handle':
            ctx.case('handle_target', sig)
        # load and compare
        try:
            back = load_obj(kind, path, ftype)
        except Exception as exc:
            ctx.fail(f'roundtrip:{kind}', dict(sig, what='load_raised', exception=type(exc).__name__),
                     f'load raised {type(exc).__name__}: {exc}', wit())
            return
        gc.collect()
        ctx.case(f'roundtrip:{kind}', sig, sample={'kind': kind, 'file_type': ftype, 'target': target_kind,
                                                   'features': feats, 'overwrite': overwrite, 'existing': exists})
        if exists and overwrite:
            ctx.case('overwrite_replaces', sig)
        err = compare_obj(kind, model_of_file[0], back, model_of_file[1])
        if err:
            ctx.fail(f'roundtrip:{kind}' if not (exists and overwrite) else 'overwrite_replaces',
                     dict(sig, what='not_equal_fieldwise'), f'loaded {kind} differs from the saved one: {err}', wit())
            return
        if kind in ('RDMs', 'Dataset', 'TemporalDataset'):
            try:
                eq = (model_of_file[0] == back)
                if not bool(eq):
                    ctx.fail(f'roundtrip:{kind}', dict(sig, what='eq_false'), f'saved == loaded is False although '
                             f'all fields are equal', wit())
                    return
            except Exception as exc:
                ctx.fail(f'roundtrip:{kind}', dict(sig, what='eq_raised', exception=type(exc).__name__),
                         f'saved == loaded raised {type(exc).__name__}: {exc}', wit())
                return


STRUCT_OPS = ['reorder', 'sort_by', 'sort_noreindex', 'subset_pattern', 'subsample_pattern', 'getitem', 'append',
              'ds_sort_by', 'ds_subset_obs', 'ds_subset_channel']


def run_structural(ctx, scratch, op, k):
    """one structural operation, then a round trip in both formats: the object produced by the operation -- with all its
    (possibly rebuilt) descriptors -- is what comes back"""
    rng = ctx.rng
    if op.startswith('ds_'):
        kind = 'Dataset'
        d = make_dataset(rng, [])
        if d.n_obs < 2:
            return
        if op == 'ds_sort_by':
            d.sort_by('cond')
        elif op == 'ds_subset_obs':
            d = d.subset_obs('run', list(dict.fromkeys(d.obs_descriptors['run']))[:1])
        else:
            d = d.subset_channel('ch', list(d.channel_descriptors['ch'])[:max(1, d.n_channel - 1)])
        obj = d
    else:
        kind = 'RDMs'
        r = make_rdms(rng, [])
        if op == 'reorder':
            r.reorder([int(i) for i in rng.permutation(r.n_cond)])
        elif op == 'sort_by':
            r.reorder([int(i) for i in rng.permutation(r.n_cond)])
            r.sort_by(cond='alpha')
        elif op == 'sort_noreindex':
            r.reorder([int(i) for i in rng.permutation(r.n_cond)])
            r.sort_by(reindex=False, cond='alpha')
        elif op == 'subset_pattern':
            r = r.subset_pattern('index', list(r.pattern_descriptors['index'])[1:])
        elif op == 'subsample_pattern':
            idx = list(r.pattern_descriptors['index'])
            r = r.subsample_pattern('index', [idx[0], idx[0]] + idx[1:])
        elif op == 'getitem':
            r = r[int(rng.integers(r.n_rdm))]
        else:
            r.append(r.copy())
        obj = r
    for ftype in ('hdf5', 'pkl'):
        sig = dict(kind=kind, file_type=ftype, target='path', feature='after_' + op)
        path = os.path.join(scratch, f'struct{k}.{ftype}')
        wit = lambda **x: dict(kind=kind, op=op, file_type=ftype, **x)  # noqa: E731
        ok, _ = ctx.guarded('roundtrip:' + kind, sig, save_obj, kind, obj, path, ftype, True, data=wit)
        if not ok:
            continue
        ok, back = ctx.guarded('roundtrip:' + kind, dict(sig, what='load_raised'), load_obj, kind, path, ftype, data=wit)
        if not ok:
            continue
        ctx.case('roundtrip:' + kind, sig)
        ctx.count('structural_history_cases')
        err = compare_obj(kind, obj, back)
        if err:
            ctx.fail('roundtrip:' + kind, dict(sig, what='fields_differ'), f'after {op}: loaded object differs from the saved '
                     f'one: {err}', wit())


def run(ctx):
    scratch = tempfile.mkdtemp(prefix='verif-c16-')
    try:
        for k in range(ctx.n(40, 120)):
            run_structural(ctx, scratch, STRUCT_OPS[k % len(STRUCT_OPS)], k)
        n = ctx.n(90, 400)
        for it in range(n):
            if ctx.out_of_time():
                ctx.notes.append(f'time budget reached after {it} histories')
                break
            run_history(ctx, scratch, KINDS[it % len(KINDS)])
    finally:
        shutil.rmtree(scratch, ignore_errors=True)
