"""C11  Dataset operations keep every observation attached to its own descriptors.

Monitor: history checker on Dataset / TemporalDataset: random sequences of the listed operations on a pool of
live datasets; measurements encode (observation uid, channel uid, time uid) exactly, so every cell can be checked
against the uid descriptors of its row, column and time slice after any history; class invariant on the dataset
classes (descriptor lengths match the measurement axes).
Oracle: id decoding of every cell + descriptor tables per uid + per-operation laws (partition, multiset, original
order, stable permutation, bin means, per-label means).
"""
import copy

import numpy as np
import pandas as pd

from rsatoolbox.data import Dataset, TemporalDataset, average_dataset_by
from rsatoolbox.data.ops import merge_datasets
from vlib import gen, ref

LEVEL = 'exploration'
LEVEL_TEXT = ('Seeded exploration by operation histories on the real Dataset / TemporalDataset classes: random '
              'sequences of the listed operations are applied to a pool of live datasets whose measurements encode '
              '(observation, channel, time) uids; after every step every live dataset is decoded cell by cell and '
              'compared with its uid descriptors and the descriptor tables, and the per-operation laws (partition, '
              'multiset equality after merge, original order in subsets, stable sort, bin means, per-label means) are '
              'asserted. Held on the K histories observed.')
LEVEL_NOTE = ('A sequence is aborted at its first failing step. Operations are generated within their documented '
              'preconditions (bin_time needs an array-typed time descriptor and no further time descriptors; '
              'get_measurements_tensor needs equal repetition counts); descriptor values are compared by value, not '
              'type. Size-1 observation / channel / time dimensions are included.')
DESIGN_REF = 'DESIGN.md section 4 / C11'
TECHNIQUE = 'history checker with uid-encoded measurements + per-operation laws + class invariant'
RULE = ('random operation sequences (length <= 10 quick / 20 thorough) over pools seeded with 2 flat and 1 temporal '
        'dataset {sizes incl. 1, >= 40 rows with duplicate keys for sorting, descriptor containers list/ndarray, '
        'label kinds}; each applied operation is a case; distinct = (operation, argument class, shape class)')
ASSUMPTIONS = ['uids < 100 per axis (id coding exact in float64)']
OPS = ['split_obs', 'split_channel', 'subset_obs', 'subset_channel', 'sort_by', 'merge', 'odd_even', 'nested_odd_even',
       'copy', 'df_roundtrip', 'average_by', 'tensor', 'split_time', 'subset_time', 'bin_time', 'time_as_observations',
       'time_as_channels']
REQUIRED = ['check:' + o for o in OPS] + ['sequences_completed', 'steps_checked', 'stable_sort_cases',
                                         'size_one_cases', 'temporal_sort_cases']
REACH = ['Dataset.split_obs', 'Dataset.split_channel', 'Dataset.subset_obs', 'Dataset.subset_channel',
         'Dataset.sort_by', 'TemporalDataset.sort_by', 'merge_datasets', 'Dataset.odd_even_split',
         'Dataset.nested_odd_even_split', 'Dataset.to_df', 'Dataset.from_df', 'average_dataset_by',
         'Dataset.get_measurements_tensor', 'TemporalDataset.split_time', 'TemporalDataset.subset_time',
         'TemporalDataset.bin_time', 'TemporalDataset.time_as_observations', 'TemporalDataset.time_as_channels',
         'TemporalDataset.split_obs', 'TemporalDataset.subset_channel']
FAIL_KEYS = ['op', 'what', 'temporal', 'shape']
TIME_BUDGET = {'quick': 80, 'thorough': 800}


class World:
    def __init__(self, rng):
        self.rng = rng
        self.cont = gen.pick(rng, gen.CONTAINERS)
        self.lk = gen.pick(rng, gen.LABEL_KINDS)
        self.obs = {}     # ouid -> dict(cond=, run=)
        self.chan = {}    # cuid -> dict(roi=)
        self.next_o = 1
        self.cuids = None

    def new_obs(self, n, n_cond, n_run):
        conds = gen.labels(self.rng, n_cond, self.lk)
        runs = [f'r{i}' for i in range(n_run)]
        out = []
        for _ in range(n):
            u = self.next_o
            self.next_o += 1
            if self.next_o > 99:
                self.next_o = 1   # uids wrap: objects of one pool never mix more than 99 rows from one source
            self.obs[u] = dict(cond=conds[int(self.rng.integers(n_cond))], run=runs[int(self.rng.integers(n_run))])
            out.append(u)
        return out

    def channels(self, n):
        cu = [int(v) for v in self.rng.permutation(n) + 1]
        for c in cu:
            self.chan[c] = dict(roi=['A', 'B'][c % 2])
        return cu

    def flat(self, n_obs, n_chan, n_cond=3, n_run=2):
        ou = self.new_obs(n_obs, n_cond, n_run)
        cu = self.channels(n_chan)
        return self.build(ou, cu, None)

    def temporal(self, n_obs, n_chan, n_time, n_cond=3, n_run=2):
        ou = self.new_obs(n_obs, n_cond, n_run)
        cu = self.channels(n_chan)
        tu = [int(v) for v in self.rng.permutation(n_time) + 1]
        if self.rng.integers(2):
            tu = sorted(tu)
        return self.build(ou, cu, tu)

    def build(self, ou, cu, tu):
        od = {'ouid': gen.wrap(ou, self.cont), 'cond': gen.wrap([self.obs[u]['cond'] for u in ou], self.cont),
              'run': gen.wrap([self.obs[u]['run'] for u in ou], self.cont)}
        cd = {'cuid': gen.wrap(cu, self.cont), 'roi': gen.wrap([self.chan[c]['roi'] for c in cu], self.cont)}
        if tu is None:
            m = np.array([[1e4 * o + 1e2 * c for c in cu] for o in ou], dtype=float).reshape(len(ou), len(cu))
            return Dataset(m, descriptors={'subj': 's1'}, obs_descriptors=od, channel_descriptors=cd), Shadow(ou, cu, None)
        m = np.array([[[1e4 * o + 1e2 * c + t for t in tu] for c in cu] for o in ou], dtype=float)
        m = m.reshape(len(ou), len(cu), len(tu))
        if (len(ou) + len(cu) + len(tu)) % 2:
            m = np.asfortranarray(m)      # column-major storage (a MATLAB file, a transposed time x channel x trial array)
        td = {'time': np.array([t * 0.25 for t in tu])}
        return (TemporalDataset(m, descriptors={'subj': 's1'}, obs_descriptors=od, channel_descriptors=cd,
                                time_descriptors=td), Shadow(ou, cu, tu))


class Shadow:
    def __init__(self, ou, cu, tu):
        self.ou, self.cu, self.tu = list(ou), list(cu), (None if tu is None else list(tu))

    def copy(self):
        return Shadow(self.ou, self.cu, self.tu)


def check_ds(w, ds, sh):
    """every cell decodes to the uids of its row / column / slice; descriptors equal the tables"""
    temporal = sh.tu is not None
    if temporal != isinstance(ds, TemporalDataset):
        return f'type {type(ds).__name__} unexpected'
    try:
        ou = [int(float(v)) for v in ds.obs_descriptors['ouid']]
        cu = [int(float(v)) for v in ds.channel_descriptors['cuid']]
    except Exception as exc:
        return f'uid descriptors unreadable: {exc!r}'
    if ou != sh.ou:
        return f'observation uids {ou} != expected {sh.ou}'
    if cu != sh.cu:
        return f'channel uids {cu} != expected {sh.cu}'
    m = np.asarray(ds.measurements)
    shape = (len(ou), len(cu)) + ((len(sh.tu),) if temporal else ())
    if m.shape != shape or ds.n_obs != len(ou) or ds.n_channel != len(cu):
        return f'measurements shape {m.shape} / n_obs {ds.n_obs} / n_channel {ds.n_channel}, expected {shape}'
    for i, o in enumerate(ou):
        if ref._key(ds.obs_descriptors['cond'][i]) != w.obs[o]['cond'] and \
                str(ds.obs_descriptors['cond'][i]) != str(w.obs[o]['cond']):
            return f'cond of observation uid {o} is {ds.obs_descriptors["cond"][i]!r}, was {w.obs[o]["cond"]!r}'
        if str(ds.obs_descriptors['run'][i]) != w.obs[o]['run']:
            return f'run of observation uid {o} changed'
    for j, c in enumerate(cu):
        if str(ds.channel_descriptors['roi'][j]) != w.chan[c]['roi']:
            return f'roi of channel uid {c} changed'
    if temporal:
        tv = [float(v) for v in ds.time_descriptors['time']]
        if tv != [t * 0.25 for t in sh.tu] or ds.n_time != len(sh.tu):
            return f'time coordinates {tv} != expected {[t * 0.25 for t in sh.tu]}'
        want = (1e4 * np.array(ou, dtype=float)[:, None, None] + 1e2 * np.array(cu, dtype=float)[None, :, None]
                + np.array(sh.tu, dtype=float)[None, None, :])
    else:
        want = 1e4 * np.array(ou, dtype=float)[:, None] + 1e2 * np.array(cu, dtype=float)[None, :]
    if not np.array_equal(m, want):
        bad = np.argwhere(m != want)[0]
        return f'cell {tuple(int(b) for b in bad)} holds {m[tuple(bad)]!r}, its row/column/slice uids encode ' \
               f'{want[tuple(bad)]!r}'
    return None


def fp(ds):
    def dsc(d):
        return tuple((k, tuple(str(x) for x in v)) for k, v in sorted(d.items()))
    t = dsc(ds.time_descriptors) if isinstance(ds, TemporalDataset) else ()
    return (np.asarray(ds.measurements).tobytes(), np.asarray(ds.measurements).shape, dsc(ds.obs_descriptors),
            dsc(ds.channel_descriptors), t)


class Run:
    def __init__(self, ctx, w):
        self.ctx, self.w, self.pool = ctx, w, []

    def add(self, ds, sh):
        self.pool.append([ds, sh])

    def prune(self):
        while len(self.pool) > 7:
            self.pool.pop(int(self.w.rng.integers(len(self.pool))))

    def verify_all(self, op, sig, wit, touched=(), before=None):
        self.ctx.count('steps_checked')
        for k, (ds, sh) in enumerate(self.pool):
            err = check_ds(self.w, ds, sh)
            if err:
                self.ctx.fail(op, dict(sig, what='association' if k in touched else 'other_object_changed'),
                              f'after {op}: live dataset #{k}: {err}', wit(index=k))
                return False
            if before is not None and k not in touched and k < len(before) and fp(ds) != before[k]:
                self.ctx.fail(op, dict(sig, what='other_object_changed'), f'after {op}: dataset #{k} was not the target '
                              f'but changed', wit(index=k))
                return False
        return True


def pick(run, pred=lambda d, s: True):
    c = [k for k, (d, s) in enumerate(run.pool) if pred(d, s)]
    return None if not c else c[int(run.w.rng.integers(len(c)))]


def groups_in_order(vals):
    out = []
    for v in vals:
        if v not in out:
            out.append(v)
    return out


def step(run, op):
    ctx, w, rng = run.ctx, run.w, run.w.rng
    run.prune()
    before = [fp(d) for d, _ in run.pool]
    temporal_only = op in ('split_time', 'subset_time', 'bin_time', 'time_as_observations', 'time_as_channels')
    flat_only = op in ('odd_even', 'nested_odd_even', 'df_roundtrip', 'average_by', 'tensor')
    k = pick(run, lambda d, s: (s.tu is not None) if temporal_only else ((s.tu is None) if flat_only else True))
    if k is None:
        return True
    ds, sh = run.pool[k]
    temporal = sh.tu is not None
    shape_cls = 'size1' if 1 in np.asarray(ds.measurements).shape else ('large' if len(sh.ou) >= 40 else 'small')
    if shape_cls == 'size1':
        ctx.count('size_one_cases')
    sig = dict(op=op, temporal=temporal, shape=shape_cls)
    hist = lambda **kk: dict(op=op, ou=sh.ou, cu=sh.cu, tu=sh.tu,  # noqa: E731
                             cond=[str(w.obs[o]['cond']) for o in sh.ou], **kk)
    touched = ()
    mk = (lambda o, c, t: Shadow(o, c, t))
    try:
        if op in ('split_obs', 'split_channel'):
            axis_obs = op == 'split_obs'
            by = gen.pick(rng, ['cond', 'run', 'ouid']) if axis_obs else gen.pick(rng, ['roi', 'cuid'])
            sig['arg'] = by
            parts = ds.split_obs(by) if axis_obs else ds.split_channel(by)
            uids = sh.ou if axis_obs else sh.cu
            keyf = (lambda u: str(w.obs[u][by]) if by != 'ouid' else str(u)) if axis_obs else \
                (lambda u: str(w.chan[u][by]) if by != 'cuid' else str(u))
            want_groups = groups_in_order([keyf(u) for u in uids])
            if len(parts) != len(want_groups):
                ctx.fail(op, dict(sig, what='number_of_parts'), f'{len(parts)} parts for {len(want_groups)} values', hist())
                return False
            for g, p in zip(want_groups, parts):
                sel = [u for u in uids if keyf(u) == g]        # matching items in original order
                run.add(p, mk(sel, sh.cu, sh.tu) if axis_obs else mk(sh.ou, sel, sh.tu))
                if str(p.descriptors.get(by)) != g and by in p.descriptors:
                    ctx.fail(op, dict(sig, what='part_descriptor'), f'part labelled {p.descriptors.get(by)!r} holds '
                             f'items of value {g!r}', hist())
                    return False
            touched = tuple(range(len(run.pool) - len(parts), len(run.pool)))
        elif op in ('subset_obs', 'subset_channel'):
            axis_obs = op == 'subset_obs'
            by = gen.pick(rng, ['cond', 'run', 'ouid']) if axis_obs else gen.pick(rng, ['roi', 'cuid'])
            uids = sh.ou if axis_obs else sh.cu
            keyf = (lambda u: w.obs[u][by] if by != 'ouid' else u) if axis_obs else \
                (lambda u: w.chan[u][by] if by != 'cuid' else u)
            vals_all = groups_in_order([keyf(u) for u in uids])
            vals = [vals_all[int(i)] for i in rng.choice(len(vals_all), size=int(rng.integers(1, len(vals_all) + 1)),
                                                         replace=False)]
            scalar = len(vals) == 1 and bool(rng.integers(2))
            arg = vals[0] if scalar else (list(vals) if rng.integers(2) else np.array(vals))
            sig['arg'] = f'{by}/{"scalar" if scalar else type(arg).__name__}'
            new = ds.subset_obs(by, arg) if axis_obs else ds.subset_channel(by, arg)
            sel = [u for u in uids if keyf(u) in vals]
            run.add(new, mk(sel, sh.cu, sh.tu) if axis_obs else mk(sh.ou, sel, sh.tu))
            touched = (len(run.pool) - 1,)
        elif op == 'sort_by':
            by = gen.pick(rng, ['cond', 'run', 'ouid'])
            sig['arg'] = by
            keys = [w.obs[u][by] if by != 'ouid' else u for u in sh.ou]
            order = [int(i) for i in np.argsort(np.array(keys), kind='stable')]
            ds.sort_by(by)
            sh.ou = [sh.ou[i] for i in order]     # a STABLE permutation: ties keep their original order
            if len(set(map(str, keys))) < len(keys) and len(keys) >= 17:
                ctx.count('stable_sort_cases')
            if temporal:
                ctx.count('temporal_sort_cases')
            touched = (k,)
        elif op == 'merge':
            cands = [i for i, (d, s) in enumerate(run.pool) if s.cu == sh.cu and s.tu == sh.tu
                     and type(d) is type(ds)]
            sel = [cands[int(i)] for i in rng.permutation(len(cands))[:int(rng.integers(1, min(3, len(cands)) + 1))]]
            parts = [run.pool[i][0] for i in sel]
            sess = None
            if len(cands) >= 1 and rng.integers(2):
                # a dataset-level descriptor that differs between the parts (session A, B, A, ...): it must come back as a
                # per-observation descriptor carrying each part's own value
                k_parts = int(rng.integers(2, 5))
                sel = [cands[int(i)] for i in rng.integers(0, len(cands), size=k_parts)]
                sess = [gen.pick(rng, ['A', 'B']) for _ in sel]
                if k_parts >= 3 and rng.integers(2):
                    sess[0] = sess[-1] = 'A'
                    sess[1] = 'B'
                parts = []
                for i, sv in zip(sel, sess):
                    c = run.pool[i][0].copy()
                    c.descriptors['sess'] = sv
                    parts.append(c)
                sig['arg'] = 'varying_dataset_descriptor'
            new = merge_datasets(parts)
            if sess is not None:
                want_rows = [sv for i, sv in zip(sel, sess) for _ in run.pool[i][1].ou]
                if len(set(sess)) == 1:
                    okd = str(new.descriptors.get('sess')) == sess[0] or \
                        [str(v) for v in new.obs_descriptors.get('sess', [])] == want_rows
                else:
                    okd = [str(v) for v in new.obs_descriptors.get('sess', [])] == want_rows
                if not okd:
                    ctx.fail(op, dict(sig, what='dataset_descriptor_promotion'), f'parts with dataset descriptor sess={sess}: '
                             f'merged object has descriptors {new.descriptors.get("sess")!r} / obs descriptor '
                             f'{list(new.obs_descriptors.get("sess", []))} instead of one value per row {want_rows}', hist())
                    return False
            ou = [u for i in sel for u in run.pool[i][1].ou]
            run.add(new, mk(ou, sh.cu, sh.tu))
            touched = (len(run.pool) - 1,)
        elif op in ('odd_even', 'nested_odd_even'):
            if op == 'odd_even':
                by = gen.pick(rng, ['cond', 'run'])
                sig['arg'] = by
                a, b = ds.odd_even_split(by)
                groups = groups_in_order([str(w.obs[u][by]) for u in sh.ou])
                side = {g: i % 2 for i, g in enumerate(groups)}
                part = [[u for g in groups if side[g] == s for u in sh.ou if str(w.obs[u][by]) == g] for s in (0, 1)]
            else:
                l1, l2 = gen.pick(rng, [('run', 'cond'), ('cond', 'run')])
                sig['arg'] = f'{l1}/{l2}'
                if any(len(set(str(w.obs[u][l2]) for u in sh.ou if str(w.obs[u][l1]) == g1)) < 2
                       for g1 in set(str(w.obs[u][l1]) for u in sh.ou)):
                    ctx.count('rejected_partition_with_single_group')   # nothing to split into odd and even
                    return True
                a, b = ds.nested_odd_even_split(l1, l2)
                part = [[], []]
                for g1 in groups_in_order([str(w.obs[u][l1]) for u in sh.ou]):
                    sub = [u for u in sh.ou if str(w.obs[u][l1]) == g1]
                    g2s = groups_in_order([str(w.obs[u][l2]) for u in sub])
                    for s in (0, 1):
                        part[s] += [u for i, g in enumerate(g2s) if i % 2 == s for u in sub if str(w.obs[u][l2]) == g]
            for s, p in enumerate((a, b)):
                if not part[s]:
                    continue           # an empty half is returned as an empty placeholder dataset
                run.add(p, mk(part[s], sh.cu, None))
            touched = tuple(range(len(run.pool) - sum(1 for x in part if x), len(run.pool)))
        elif op == 'copy':
            run.add(ds.copy(), sh.copy())
            touched = (len(run.pool) - 1,)
        elif op == 'df_roundtrip':
            df = ds.to_df(channel_descriptor='cuid')
            if not isinstance(df, pd.DataFrame) or len(df) != len(sh.ou):
                ctx.fail(op, dict(sig, what='rows'), 'to_df row count', hist())
                return False
            for i, o in enumerate(sh.ou):
                row = df.iloc[i]
                if int(row['ouid']) != o or str(row['cond']) != str(w.obs[o]['cond']) or \
                        any(float(row[c]) != 1e4 * o + 1e2 * c for c in sh.cu):
                    ctx.fail(op, dict(sig, what='row_content'), f'DataFrame row {i} does not carry observation {o}', hist())
                    return False
            # the channel columns may be named in any order (and a subset of them): each column keeps its name
            chans = [sh.cu[int(i)] for i in rng.permutation(len(sh.cu))]
            if len(chans) > 1 and rng.integers(3) == 0:
                chans = chans[:-1]
            sub = Dataset.from_df(df[[c for c in df.columns if c not in sh.cu or c in chans]], channels=list(chans),
                                  channel_descriptor='cuid')
            cols = [sh.cu.index(c) for c in chans]
            if [int(v) for v in sub.channel_descriptors['cuid']] != chans or \
                    not np.array_equal(sub.measurements, ds.measurements[:, cols]):
                ctx.fail(op, dict(sig, what='from_df_channel_order'), f'from_df(channels={chans}): measurement columns '
                         f'are not the named channels in the named order', hist())
                return False
            back = Dataset.from_df(df, channels=list(sh.cu), channel_descriptor='cuid')
            if [int(v) for v in back.channel_descriptors['cuid']] != sh.cu or \
                    not np.array_equal(back.measurements, ds.measurements):
                ctx.fail(op, dict(sig, what='from_df'), 'from_df(to_df(ds)) lost measurements / channels', hist())
                return False
            for name in ('ouid', 'cond', 'run'):
                src = back.obs_descriptors.get(name)
                if src is None:
                    src = [back.descriptors.get(name)] * len(sh.ou)     # constant columns become dataset descriptors
                want = [o if name == 'ouid' else w.obs[o][name] for o in sh.ou]
                if [str(v) for v in src] != [str(v) for v in want]:
                    ctx.fail(op, dict(sig, what='from_df_descriptors'), f'descriptor {name} after the DataFrame round '
                             f'trip: {list(src)} != {want}', hist())
                    return False
            # a descriptor that marks only some rows (one label, the other rows missing: None or NaN) is an observation
            # descriptor like any other: each row keeps its own entry through the round trip
            if len(sh.ou) >= 2:
                kind = gen.pick(rng, ['none', 'nan'])
                k_marked = int(rng.integers(1, len(sh.ou)))
                marked = set(int(i) for i in rng.choice(len(sh.ou), size=k_marked, replace=False))
                lab, miss = ('blink', None) if kind == 'none' else (0.5, float('nan'))
                c2 = ds.copy()
                c2.obs_descriptors['mark'] = [lab if i in marked else miss for i in range(len(sh.ou))]
                b2 = Dataset.from_df(c2.to_df(channel_descriptor='cuid'), channels=list(sh.cu), channel_descriptor='cuid')
                ctx.count('df_roundtrip_partial_marks')
                got = b2.obs_descriptors.get('mark')
                got = None if got is None else [None if (v is None or v != v) else v for v in got]
                want = [lab if i in marked else None for i in range(len(sh.ou))]
                if 'mark' in ds.obs_descriptors:
                    raise AssertionError('harness: the copy shares its descriptor dict with the dataset')
                if got != want:
                    ctx.fail(op, dict(sig, what='from_df_partial_marks'), f'descriptor marking rows {sorted(marked)} '
                             f'({kind} elsewhere) came back as {got} (dataset-level: '
                             f'{b2.descriptors.get("mark")!r})', hist())
                    return False
        elif op == 'average_by':
            by = gen.pick(rng, ['cond', 'run'])
            sig['arg'] = by
            avg, vals, n_obs = average_dataset_by(ds, by)
            groups = groups_in_order([str(w.obs[u][by]) for u in sh.ou])
            if [str(v) for v in vals] != groups:
                ctx.fail(op, dict(sig, what='labels'), f'labels {list(vals)} != first-appearance order {groups}', hist())
                return False
            for i, g in enumerate(groups):
                rows = [u for u in sh.ou if str(w.obs[u][by]) == g]
                want = np.mean([[1e4 * o + 1e2 * c for c in sh.cu] for o in rows], axis=0)
                if not np.allclose(avg[i], want, rtol=1e-12, atol=1e-9) or n_obs[i] != len(rows):
                    ctx.fail(op, dict(sig, what='mean'), f'average for {by}={g!r} is not the mean of exactly the rows '
                             f'carrying that label (observations {rows})', hist(label=g))
                    return False
        elif op == 'tensor':
            by = gen.pick(rng, ['cond', 'run'])
            groups = groups_in_order([str(w.obs[u][by]) for u in sh.ou])
            counts = [sum(1 for u in sh.ou if str(w.obs[u][by]) == g) for g in groups]
            if len(set(counts)) != 1:
                ctx.count('rejected_unequal_repetitions')
                return True
            tens, vals = ds.get_measurements_tensor(by)
            if [str(v) for v in vals] != groups or tens.shape != (len(groups), len(sh.cu), counts[0]):
                ctx.fail(op, dict(sig, what='shape'), f'tensor shape {tens.shape} / labels {list(vals)}', hist())
                return False
            for i, g in enumerate(groups):
                rows = [u for u in sh.ou if str(w.obs[u][by]) == g]
                want = np.array([[1e4 * o + 1e2 * c for o in rows] for c in sh.cu])
                if not np.array_equal(tens[i], want):
                    ctx.fail(op, dict(sig, what='content'), f'tensor slice of {g!r} does not hold its rows in order', hist())
                    return False
        elif op == 'split_time':
            parts = ds.split_time('time')
            if len(parts) != len(sh.tu):
                ctx.fail(op, dict(sig, what='number_of_parts'), f'{len(parts)} parts for {len(sh.tu)} time points', hist())
                return False
            for t, p in zip(sh.tu, parts):
                run.add(p, mk(sh.ou, sh.cu, [t]))
            touched = tuple(range(len(run.pool) - len(parts), len(run.pool)))
        elif op == 'subset_time':
            ts = sorted(sh.tu)
            a, b = sorted(int(i) for i in rng.integers(0, len(ts), size=2))
            lo, hi = ts[a] * 0.25, ts[b] * 0.25
            new = ds.subset_time('time', lo, hi)
            run.add(new, mk(sh.ou, sh.cu, [t for t in sh.tu if lo <= t * 0.25 <= hi]))
            # the same selection through a second time descriptor with other numbers (milliseconds from another origin)
            ms = [1000 - 7 * t for t in sh.tu]
            ds2 = TemporalDataset(ds.measurements.copy(), obs_descriptors={'ouid': list(sh.ou)},
                                  channel_descriptors={'cuid': list(sh.cu)},
                                  time_descriptors={'time': np.array([t * 0.25 for t in sh.tu]), 'ms': np.array(ms)})
            a2, b2 = sorted(float(x) for x in rng.choice(ms, size=2))
            keep_t = [i for i, v in enumerate(ms) if a2 <= v <= b2]
            sub2 = ds2.subset_time('ms', a2, b2)
            if [int(v) for v in sub2.time_descriptors['ms']] != [ms[i] for i in keep_t] or \
                    not np.array_equal(sub2.measurements, ds.measurements[:, :, keep_t]):
                ctx.fail(op, dict(sig, what='other_time_descriptor'), f"subset_time('ms', {a2}, {b2}) on ms={ms} kept ms="
                         f"{[int(v) for v in sub2.time_descriptors['ms']]} instead of {[ms[i] for i in keep_t]}", hist())
                return False
            touched = (len(run.pool) - 1,)
        elif op == 'bin_time':
            if len(sh.tu) < 2:
                return True
            perm = [int(i) for i in rng.permutation(len(sh.tu))]
            n_bins = int(rng.integers(1, min(3, len(sh.tu)) + 1))
            cuts = sorted(int(i) for i in rng.choice(np.arange(1, len(sh.tu)), size=n_bins - 1, replace=False)) \
                if n_bins > 1 else []
            idx_bins = np.split(np.array(perm), cuts)
            if gen.pick(rng, [True, False]):
                idx_bins = np.split(np.arange(len(sh.tu)), cuts)     # contiguous bins
            bins = [np.array([sh.tu[i] * 0.25 for i in ib]) for ib in idx_bins]
            sig['arg'] = 'contiguous' if all(np.all(np.diff(ib) == 1) for ib in idx_bins) else 'scattered'
            new = ds.bin_time('time', bins)
            m = np.asarray(new.measurements)
            if m.shape != (len(sh.ou), len(sh.cu), len(bins)):
                ctx.fail(op, dict(sig, what='shape'), f'binned shape {m.shape}', hist(bins=bins))
                return False
            for bi, ib in enumerate(idx_bins):
                tus = [sh.tu[i] for i in ib]
                want = (1e4 * np.array(sh.ou, dtype=float)[:, None] + 1e2 * np.array(sh.cu, dtype=float)[None, :]
                        + float(np.mean(tus)))
                if not np.allclose(m[:, :, bi], want, rtol=1e-13, atol=1e-9) or \
                        abs(float(new.time_descriptors['time'][bi]) - float(np.mean(tus)) * 0.25) > 1e-12:
                    ctx.fail(op, dict(sig, what='bin_mean'), f'bin {bi} (time uids {tus}) is not the mean of exactly its '
                             f'time points', hist(bins=bins))
                    return False
            if [int(float(v)) for v in new.obs_descriptors['ouid']] != sh.ou:
                ctx.fail(op, dict(sig, what='descriptors'), 'obs descriptors changed by binning', hist())
                return False
        elif op == 'time_as_observations':
            new = ds.time_as_observations('time')
            m = np.asarray(new.measurements)
            order_t = groups_in_order(sh.tu)
            want_rows = [(o, t) for t in order_t for o in sh.ou]
            if m.shape != (len(want_rows), len(sh.cu)):
                ctx.fail(op, dict(sig, what='shape'), f'shape {m.shape}, expected {(len(want_rows), len(sh.cu))}', hist())
                return False
            got_o = [int(float(v)) for v in new.obs_descriptors['ouid']]
            got_t = [float(v) for v in new.obs_descriptors['time']]
            for r, (o, t) in enumerate(want_rows):
                if got_o[r] != o or got_t[r] != t * 0.25 or str(new.obs_descriptors['cond'][r]) not in \
                        (str(w.obs[o]['cond']), str(float(w.obs[o]['cond'])) if isinstance(w.obs[o]['cond'], int) else ''):
                    ctx.fail(op, dict(sig, what='row_labels'), f'row {r} labelled (obs {got_o[r]}, time {got_t[r]}, cond '
                             f'{new.obs_descriptors["cond"][r]!r}), expected (obs {o}, time {t * 0.25}, cond '
                             f'{w.obs[o]["cond"]!r})', hist())
                    return False
                if not np.array_equal(m[r], np.array([1e4 * o + 1e2 * c + t for c in sh.cu])):
                    ctx.fail(op, dict(sig, what='row_values'), f'row {r} does not hold the measurements of observation '
                             f'{o} at time uid {t}', hist())
                    return False
            if [int(float(v)) for v in new.channel_descriptors['cuid']] != sh.cu:
                ctx.fail(op, dict(sig, what='channels'), 'channel descriptors changed', hist())
                return False
        elif op == 'time_as_channels':
            new = ds.time_as_channels()
            m = np.asarray(new.measurements)
            cols = [(c, t) for c in sh.cu for t in sh.tu]
            if m.shape != (len(sh.ou), len(cols)):
                ctx.fail(op, dict(sig, what='shape'), f'shape {m.shape}', hist())
                return False
            gc = [int(float(v)) for v in new.channel_descriptors['cuid']]
            gt = [float(v) for v in new.channel_descriptors['time']]
            for j, (c, t) in enumerate(cols):
                if gc[j] != c or gt[j] != t * 0.25:
                    ctx.fail(op, dict(sig, what='column_labels'), f'column {j} labelled (chan {gc[j]}, time {gt[j]}), '
                             f'expected (chan {c}, time {t * 0.25})', hist())
                    return False
                if not np.array_equal(m[:, j], np.array([1e4 * o + 1e2 * c + t for o in sh.ou])):
                    ctx.fail(op, dict(sig, what='column_values'), f'column {j} does not hold channel {c} at time uid {t}',
                             hist())
                    return False
            if [int(float(v)) for v in new.obs_descriptors['ouid']] != sh.ou:
                ctx.fail(op, dict(sig, what='observations'), 'obs descriptors changed', hist())
                return False
        else:
            raise ValueError(op)
    except Exception as exc:
        import traceback
        ctx.fail(op, dict(sig, what='raised', exception=type(exc).__name__),
                 f'{op} raised {type(exc).__name__}: {exc} | {traceback.format_exc(limit=3)}', hist())
        return False
    ctx.case(op, sig, sample=hist() if rng.integers(60) == 0 else None)
    return run.verify_all(op, sig, hist, touched, before)


def sequence(ctx, length):
    rng = ctx.rng
    w = World(rng)
    run = Run(ctx, w)
    shape = gen.pick(rng, ['small', 'small', 'large', 'size1'])
    if shape == 'large':
        run.add(*w.flat(int(rng.integers(40, 60)), int(rng.integers(2, 4)), n_cond=5, n_run=3))
        run.add(*w.temporal(int(rng.integers(17, 30)), 2, int(rng.integers(2, 4)), n_cond=4))
    elif shape == 'size1':
        dims = [int(rng.integers(1, 4)) for _ in range(3)]
        dims[int(rng.integers(3))] = 1
        run.add(*w.flat(max(dims[0], 1), max(dims[1], 1)))
        run.add(*w.temporal(*dims))
        run.add(*w.temporal(1, 1, 1))
    else:
        run.add(*w.flat(int(rng.integers(2, 10)), int(rng.integers(1, 5))))
        run.add(*w.flat(int(rng.integers(2, 8)), int(rng.integers(1, 4))))
        run.add(*w.temporal(int(rng.integers(2, 8)), int(rng.integers(1, 4)), int(rng.integers(1, 6))))
    if not run.verify_all('init', dict(op='init'), lambda **k: dict(op='init', **k)):
        return
    for _ in range(length):
        op = OPS[int(rng.integers(len(OPS)))]
        if not step(run, op):
            ctx.count('sequences_aborted')
            return
    ctx.count('sequences_completed')


def run_bins_direct(ctx):
    """bin_time on a fresh temporal dataset with bins that are not contiguous runs of the time axis (interleaved, with
    gaps, listed in any order): a bin averages exactly the time points it lists"""
    rng = ctx.rng
    n_obs, n_ch, n_t = int(rng.integers(1, 5)), int(rng.integers(1, 4)), int(rng.integers(3, 9))
    tu = [int(v) for v in rng.permutation(n_t) + 1] if rng.integers(2) else list(range(1, n_t + 1))
    m = np.array([[[1e4 * (o + 1) + 1e2 * (c + 1) + t for t in tu] for c in range(n_ch)] for o in range(n_obs)], dtype=float)
    # the id-coded values are whole numbers: half of the datasets store them in an integer array (a bin mean such as
    # (t1 + t2) / 2 is then not a whole number -- binned values are means, whatever the storage of the input)
    stored = m.reshape(n_obs, n_ch, n_t).astype(np.int64) if rng.integers(2) else m.reshape(n_obs, n_ch, n_t)
    # the unit and origin of the time axis: quarter seconds from 0, millisecond stamps late in a recording, seconds at
    # 250 Hz one hour in, nanosecond steps -- bin membership is by value, never "close to"
    step_t, off_t = [(0.25, 0.0), (0.25, 0.0), (1.0, 250000.0), (0.004, 3600.0), (2e-9, 0.0)][int(rng.integers(5))]
    tv = lambda t: off_t + t * step_t  # noqa: E731
    ds = TemporalDataset(stored, obs_descriptors={'ouid': list(range(1, n_obs + 1))},
                         channel_descriptors={'cuid': list(range(1, n_ch + 1))},
                         time_descriptors={'time': np.array([tv(t) for t in tu])})
    kind = gen.pick(rng, ['interleaved', 'gaps', 'random'])
    pos = list(range(n_t))
    if kind == 'interleaved':
        idx_bins = [pos[0::2], pos[1::2]]
    elif kind == 'gaps':
        idx_bins = [[pos[0], pos[-1]], pos[1:-1]] if n_t >= 3 else [pos]
    else:
        perm = [int(i) for i in rng.permutation(n_t)]
        cut = int(rng.integers(1, n_t))
        idx_bins = [perm[:cut], perm[cut:]]
    idx_bins = [b for b in idx_bins if b]
    bins = [np.array([tv(tu[i]) for i in b]) for b in idx_bins]
    absent = bool(rng.integers(3) == 0)
    if absent:
        # bins defined on a standard grid that is wider than this dataset's time axis (e.g. after subset_time): a bin
        # still averages exactly those of its time points that exist (the label of such a bin is not judged)
        extra = [tv(n_t + 1 + k) for k in range(len(bins))]
        bins = [np.array(list(b) + [extra[k]])[rng.permutation(len(b) + 1)] for k, b in enumerate(bins)]
        kind += '+absent_points'
    sig = dict(op='bin_time', arg='direct_' + kind, temporal=True, shape='small')
    wit = lambda **k: dict(time_uids=tu, bins=bins, **k)  # noqa: E731
    ok, new = ctx.guarded('bin_time', sig, ds.bin_time, 'time', bins, data=wit)
    if not ok:
        return
    ctx.case('bin_time', sig)
    got = np.asarray(new.measurements)
    for bi, b in enumerate(idx_bins):
        tus = [tu[i] for i in b]
        want = m.reshape(n_obs, n_ch, n_t)[:, :, b].mean(axis=2)
        if got.shape != (n_obs, n_ch, len(idx_bins)) or not np.allclose(got[:, :, bi], want, rtol=1e-13, atol=1e-9) or \
                (not absent and abs(float(new.time_descriptors['time'][bi]) - float(np.mean([tv(t) for t in tus])))
                 > 1e-12 * max(1.0, abs(off_t))):
            ctx.fail('bin_time', dict(sig, what='bin_mean'), f'bin {bi} (time uids {tus} of {tu}) is not the mean of exactly '
                     f'its time points', wit())
            return


def run_split_sort_split(ctx):
    """the same split asked for twice on one object with an in-place sort by another descriptor in between (and bins that
    overlap): every part of the second split holds exactly the rows that carry its value NOW"""
    rng = ctx.rng
    n_run, n_cond, n_ch, n_t = int(rng.integers(2, 4)), int(rng.integers(2, 5)), int(rng.integers(1, 4)), int(rng.integers(2, 5))
    cond = [int(c) for _ in range(n_run) for c in rng.permutation(n_cond)]      # each run lists its conditions in its own order
    runs = [r for r in range(n_run) for _ in range(n_cond)]
    perm = [int(i) for i in rng.permutation(len(cond))]
    cond, runs = [cond[i] for i in perm], [runs[i] for i in perm]
    n_obs = len(cond)
    temporal = bool(rng.integers(3))
    m = np.array([[[1e4 * (o + 1) + 1e2 * (c + 1) + t for t in range(n_t)] for c in range(n_ch)] for o in range(n_obs)], dtype=float)
    od = {'cond': list(cond), 'run': list(runs), 'ouid': list(range(1, n_obs + 1))}
    ds = TemporalDataset(m.copy(), obs_descriptors=od, time_descriptors={'time': np.arange(n_t) * 0.5}) if temporal \
        else Dataset(m[:, :, 0].copy(), obs_descriptors=od)
    sig = dict(op='split_obs', arg='cond/repeated', temporal=temporal, shape='small')
    wit = lambda **k: dict(cond=cond, run=runs, temporal=temporal, **k)  # noqa: E731

    def parts_ok(parts, when):
        seen = []
        for p in parts:
            ou = [int(v) for v in p.obs_descriptors['ouid']]
            cs = set(int(v) for v in p.obs_descriptors['cond'])
            vals = np.asarray(p.measurements).reshape(len(ou), -1)[:, 0]
            if len(cs) != 1 or any(cond[u - 1] not in cs for u in ou) or \
                    not np.array_equal(vals, np.array([1e4 * u + 1e2 for u in ou])):
                ctx.fail('split_obs', dict(sig, what='association'), f'{when}: a part labelled {sorted(cs)} holds the rows '
                         f'with uids {ou} (conditions {[cond[u - 1] for u in ou]}), first values {vals.tolist()}', wit(when=when))
                return False
            seen += ou
        if sorted(seen) != list(range(1, n_obs + 1)):
            ctx.fail('split_obs', dict(sig, what='partition'), f'{when}: the parts do not partition the observations', wit())
            return False
        return True
    try:
        first = ds.split_obs('cond')
        if not parts_ok(first, 'first split'):
            return
        ds.sort_by('run')
        second = ds.split_obs('cond')
        ctx.case('split_obs', sig)
        if not parts_ok(second, 'second split after sort_by(run)'):
            return
        if temporal and n_t >= 3:
            # sliding windows: a time point may belong to several bins, each bin is the mean of all its points
            tt = np.arange(n_t) * 0.5
            bins = [tt[i:i + 2] for i in range(n_t - 1)]
            b = ds.bin_time('time', bins)
            ctx.case('bin_time', dict(sig, op='bin_time', arg='overlapping'))
            cur = np.asarray(ds.measurements)
            want = np.stack([cur[:, :, i:i + 2].mean(axis=2) for i in range(n_t - 1)], axis=2)
            if np.asarray(b.measurements).shape != want.shape or not np.allclose(np.asarray(b.measurements), want, rtol=1e-13, atol=1e-9):
                ctx.fail('bin_time', dict(sig, op='bin_time', arg='overlapping', what='bin_mean'), 'overlapping bins: a bin is '
                         'not the mean of exactly its time points', wit(bins=[x.tolist() for x in bins]))
    except Exception as exc:
        ctx.fail('split_obs', dict(sig, what='raised', exception=type(exc).__name__), repr(exc), wit())


def run_close_labels(ctx):
    """numeric labels that are distinct but close (a time axis 1000 s + k ms, acquisition time stamps one hour apart,
    channel positions in metres): selections match labels by value -- exactly the matching items, nothing 'close'"""
    rng = ctx.rng
    n_obs, n_ch, n_t = int(rng.integers(3, 7)), int(rng.integers(3, 6)), int(rng.integers(4, 9))
    onset = [1.7e9 + 3600.0 * k for k in rng.permutation(40)[:n_obs]]
    cpos = [12345.0 + 0.01 * k for k in rng.permutation(20)[:n_ch]]
    tval = [1000.0 + 0.001 * k for k in range(n_t)]
    m = np.array([[[1e4 * (o + 1) + 1e2 * (c + 1) + t for t in range(n_t)] for c in range(n_ch)] for o in range(n_obs)],
                 dtype=float)
    cont = gen.pick(rng, gen.CONTAINERS)
    tds = TemporalDataset(m.copy(), obs_descriptors={'onset': gen.wrap(onset, cont)},
                          channel_descriptors={'pos': gen.wrap(cpos, cont)}, time_descriptors={'time': np.array(tval)})
    flat = Dataset(m[:, :, 0].copy(), obs_descriptors={'onset': gen.wrap(onset, cont)},
                   channel_descriptors={'pos': gen.wrap(cpos, cont)})
    sig = dict(op='close_labels', temporal=True, shape='small')
    wit = lambda **k: dict(onset=onset, pos=cpos, time=tval, **k)  # noqa: E731

    def expect(check, got, want, what):
        ctx.case(check, dict(sig, arg=what))
        if got.shape != want.shape or not np.array_equal(got, want):
            ctx.fail(check, dict(sig, what='selection', arg=what), f'{what}: selected measurements are not exactly those of '
                     f'the matching items (got shape {got.shape}, expected {want.shape})', wit(what=what))
            return False
        return True
    try:
        i = int(rng.integers(n_obs))
        if not expect('subset_obs', np.asarray(flat.subset_obs('onset', onset[i]).measurements), m[[i], :, 0], 'one onset'):
            return
        two = sorted(int(v) for v in rng.choice(n_obs, size=2, replace=False))
        if not expect('subset_obs', np.asarray(tds.subset_obs('onset', [onset[k] for k in two]).measurements), m[two],
                      'two onsets'):
            return
        j = int(rng.integers(n_ch))
        if not expect('subset_channel', np.asarray(flat.subset_channel('pos', cpos[j]).measurements), m[:, [j], 0],
                      'one channel position'):
            return
        a, b = sorted(int(v) for v in rng.integers(0, n_t, size=2))
        if not expect('subset_time', np.asarray(tds.subset_time('time', tval[a], tval[b]).measurements), m[:, :, a:b + 1],
                      'time range'):
            return
        # DataFrame round trip without naming the channels, for measurements stored in half, single or double precision
        # (values exactly representable in all three): the channel columns are the floating-point columns
        for dt in (np.float16, np.float32, np.float64):
            small = (8.0 * np.arange(1, n_obs + 1)[:, None] + np.arange(1, n_ch + 1)[None, :]).astype(dt)
            d0 = Dataset(small.copy(), obs_descriptors={'ouid': list(range(1, n_obs + 1))},
                         channel_descriptors={'name': [f'ch{c}' for c in range(n_ch)]})
            back = Dataset.from_df(d0.to_df())
            ctx.case('df_roundtrip', dict(sig, arg=f'auto_channels_{np.dtype(dt).name}'))
            if back.measurements.shape != small.shape or not np.array_equal(np.asarray(back.measurements, dtype=float),
                                                                             small.astype(float)) or \
                    [int(v) for v in back.obs_descriptors.get('ouid', [])] != list(range(1, n_obs + 1)):
                ctx.fail('df_roundtrip', dict(sig, what='from_df', arg=f'auto_channels_{np.dtype(dt).name}'),
                         f'from_df(to_df(ds)) of {np.dtype(dt).name} measurements: shape {back.measurements.shape}, '
                         f'expected {small.shape}; descriptors {sorted(back.obs_descriptors)} / {sorted(back.descriptors)}', wit())
                return
        parts = flat.split_obs('onset')
        ctx.case('split_obs', dict(sig, arg='onset'))
        if len(parts) != n_obs or any(p.n_obs != 1 for p in parts):
            ctx.fail('split_obs', dict(sig, what='number_of_parts', arg='close floats'), f'{len(parts)} parts with '
                     f'{[p.n_obs for p in parts]} rows for {n_obs} distinct onsets', wit())
    except Exception as exc:
        ctx.fail('subset_obs', dict(sig, what='raised', exception=type(exc).__name__), repr(exc), wit())


def run_large_groupings(ctx):
    """realistic sizes: more than a thousand trials (voxels) whose sorted condition (ROI) labels are stored as a numpy
    array; two sessions in one process whose group boundaries differ.  Averages, splits and channel splits are the
    rows (columns) carrying each label -- in every session, not only in the first"""
    rng = ctx.rng
    n_obs = int(rng.integers(1100, 1400))
    for session in range(2):
        cuts = sorted(int(v) for v in rng.choice(np.arange(100, n_obs - 100), size=2, replace=False))
        sizes = [cuts[0], cuts[1] - cuts[0], n_obs - cuts[1]]
        cond = np.repeat(np.array([3, 5, 8]), sizes)
        m = rng.standard_normal((n_obs, 2)).round(3)
        ds = Dataset(m.copy(), obs_descriptors={'cond': cond.copy(), 'ouid': np.arange(n_obs)})
        sig = dict(op='large_groupings', temporal=False, shape='large')
        wit = lambda **k: dict(n_obs=n_obs, sizes=sizes, session=session, **k)  # noqa: E731
        ctx.case('average_by', dict(sig, arg='sorted_array_labels'))
        avg, vals, counts = average_dataset_by(ds, 'cond')
        want = np.array([m[cond == c].mean(axis=0) for c in (3, 5, 8)])
        if [int(v) for v in vals] != [3, 5, 8] or [int(c) for c in counts] != sizes or \
                not np.allclose(avg, want, rtol=1e-12, atol=1e-12):
            ctx.fail('average_by', dict(sig, what='mean', arg='sorted_array_labels'), f'session {session}: averages / counts '
                     f'{[int(c) for c in counts]} of {n_obs} trials with group sizes {sizes} are not those of the rows '
                     f'carrying each label', wit())
            return
        ctx.case('split_obs', dict(sig, arg='sorted_array_labels'))
        parts = ds.split_obs('cond')
        if [p.n_obs for p in parts] != sizes or any(set(int(v) for v in p.obs_descriptors['cond']) != {c}
                                                     for p, c in zip(parts, (3, 5, 8))):
            ctx.fail('split_obs', dict(sig, what='association', arg='sorted_array_labels'), f'session {session}: parts have '
                     f'{[p.n_obs for p in parts]} rows, labels {[sorted(set(int(v) for v in p.obs_descriptors["cond"])) for p in parts]}; '
                     f'group sizes are {sizes}', wit())
            return
    n_ch = int(rng.integers(1200, 1600))
    for session in range(2):
        cut = int(rng.integers(200, n_ch - 200))
        roi = np.repeat(np.array(['V1', 'V2']), [cut, n_ch - cut])
        m = rng.standard_normal((2, n_ch)).round(3)
        ds = Dataset(m.copy(), channel_descriptors={'roi': roi.copy()})
        ctx.case('split_channel', dict(op='large_groupings', temporal=False, shape='large', arg='sorted_array_labels'))
        parts = ds.split_channel('roi')
        if [p.n_channel for p in parts] != [cut, n_ch - cut] or not np.array_equal(parts[0].measurements, m[:, :cut]):
            ctx.fail('split_channel', dict(op='large_groupings', what='association', arg='sorted_array_labels'),
                     f'session {session}: channel split sizes {[p.n_channel for p in parts]}, ROI sizes {[cut, n_ch - cut]}',
                     dict(n_ch=n_ch, cut=cut, session=session))
            return


def run(ctx):
    for _ in range(ctx.n(2, 4)):
        run_large_groupings(ctx)
    for _ in range(ctx.n(40, 200)):
        run_bins_direct(ctx)
        run_close_labels(ctx)
        run_split_sort_split(ctx)
    n = ctx.n(200, 3000)
    length = 10 if ctx.tier == 'quick' else 20
    for it in range(n):
        if ctx.out_of_time():
            ctx.notes.append(f'time budget reached after {it} sequences')
            break
        sequence(ctx, length)
