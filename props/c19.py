"""C19  Searchlights hold exactly the voxels in radius; RDMs match direct computation.

Monitor: exhaustive small-volume monitor on get_volume_searchlight / _get_searchlight_neighbors, result monitor on
get_searchlight_RDMs (below and above the 1000-centre chunking limit) and schedule perturbation of
evaluate_models_searchlight (joblib workers with injected, centre-dependent delays; completion order recorded
with worker-side monotonic timestamps).
Oracle: brute-force sphere membership; per-centre direct RDM; result i belongs to centre i for every n_jobs.
"""
import itertools
import os
import time

import numpy as np

from rsatoolbox.rdm import RDMs
from rsatoolbox.util import searchlight as SL
from vlib import gen
from vlib.core import close, maxdiff

LEVEL = 'exploration'
LEVEL_TEXT = ('Exhaustive enumeration of all centres of small volumes (mask families x radii x thresholds) against a '
              'brute-force definition of the searchlight, per-centre recomputation of the searchlight RDMs below and '
              'above the chunking limit, and evaluation over searchlights with n_jobs in {1,2,4} while injected delays '
              'make workers finish out of submission order. Held on everything enumerated / the schedules observed.')
LEVEL_NOTE = ('Only the completion orders that the injected delays produce under joblib are observed; result ordering '
              'itself is delegated to joblib (outside the tree). If no out-of-order completion is observed the '
              'schedule clause is reported as not exercised in the evidence (never as a violation).')
DESIGN_REF = 'DESIGN.md section 4 / C19'
TECHNIQUE = 'exhaustive small-volume monitor + per-centre recomputation + schedule perturbation with injected delays'
RULE = ('all centres of volumes up to 5x4x3 for masks {full, random, shell, single voxel, slab} x radii {1, 1.5, 2, 2.5, '
        '3, sqrt3, sqrt5} x thresholds {0.3, 0.5, 0.8, 1.0}; RDMs for 2 methods incl. an 11x11x11 volume (1331 centres, '
        'chunked branch); schedules n_jobs 1/2/4 with decreasing delays; a case = one (mask, radius, threshold) or one '
        'centre RDM or one schedule; distinct = configuration signature')
ASSUMPTIONS = ['at least one centre is accepted (an empty selection makes ravel_multi_index fail: outside the statement)']
REQUIRED = ['check:neighbors', 'check:centers', 'check:rdm_small', 'check:rdm_chunked', 'check:parallel_order',
            'centres_enumerated']
REACH = ['_get_searchlight_neighbors', 'get_volume_searchlight', 'get_searchlight_RDMs', 'evaluate_models_searchlight']
FAIL_KEYS = ['what', 'method', 'n_jobs', 'chunked']
TIME_BUDGET = {'quick': 120, 'thorough': 900}
SHARDS = {'quick': 1, 'thorough': 4}


def brute_neighbors(shape, center, radius):
    out = []
    for v in itertools.product(*(range(s) for s in shape)):
        d2 = sum((a - b) ** 2 for a, b in zip(v, center))
        if np.sqrt(float(d2)) < radius:
            out.append(v)
    return out


def masks_of(rng, shape):
    full = np.ones(shape, bool)
    out = [('full', full)]
    out.append(('random', rng.random(shape) < 0.55))
    shell = np.ones(shape, bool)
    if min(shape) >= 3:
        shell[1:-1, 1:-1, 1:-1] = False
    out.append(('shell', shell))
    single = np.zeros(shape, bool)
    single[tuple(int(rng.integers(s)) for s in shape)] = True
    out.append(('single', single))
    slab = np.zeros(shape, bool)
    slab[:, :, : max(1, shape[2] // 2)] = True
    out.append(('slab', slab))
    return out


def run_membership(ctx):
    rng = ctx.rng
    shapes = [(3, 3, 3), (4, 3, 2), (5, 4, 3), (2, 2, 5), (1, 4, 4)] if ctx.tier == 'quick' else \
        [(3, 3, 3), (4, 3, 2), (5, 4, 3), (2, 2, 5), (1, 4, 4), (4, 4, 4), (6, 3, 2), (3, 5, 3)]
    radii = [1, 1.5, 2, 2.5, 3, float(np.sqrt(3)), float(np.sqrt(5))]
    thresholds = [0.3, 0.5, 0.8, 1.0]
    combos = [(s, r) for s in shapes for r in radii]
    for ci, (shape, radius) in enumerate(combos):
        if ctx.nshards > 1 and ci % ctx.nshards != ctx.shard:
            continue
        if ctx.out_of_time():
            return
        # neighbours of every voxel
        nb_ref = {}
        for c in itertools.product(*(range(s) for s in shape)):
            want = set(brute_neighbors(shape, c, radius))
            nb_ref[c] = want
            got = SL._get_searchlight_neighbors(np.ones(shape), c, radius)
            got_set = set(zip(*got)) if len(got) and len(got[0]) else set()
            sig = dict(what='neighbors', radius=round(radius, 3), shape='x'.join(map(str, shape)))
            ctx.case('neighbors', sig, nontrivial=True)
            ctx.count('centres_enumerated')
            if got_set != want or len(got[0]) != len(got_set):
                ctx.fail('neighbors', dict(what='membership'), f'searchlight of centre {c} in volume {shape} at radius '
                         f'{radius}: {sorted(got_set ^ want)} differ from the voxels at distance < radius',
                         dict(shape=shape, center=c, radius=radius, got=sorted(got_set), want=sorted(want)))
                return
        for mname, mask in masks_of(rng, shape):
            for thr in thresholds:
                sig = dict(what='centers', mask=mname, radius=round(radius, 3), threshold=thr,
                           shape='x'.join(map(str, shape)))
                want_centers = []
                for c in zip(*np.nonzero(mask)):
                    c = tuple(int(v) for v in c)
                    nb = nb_ref[c]
                    frac = np.mean([mask[v] for v in nb])
                    if frac >= thr:
                        want_centers.append(c)
                if not want_centers:
                    ctx.count('rejected_no_centre')
                    continue
                wit = lambda **k: dict(mask=mask.astype(int), radius=radius, threshold=thr, **k)  # noqa: E731
                ok, out = ctx.guarded('centers', sig, SL.get_volume_searchlight,
                                      np.asfortranarray(mask) if rng.integers(2) else mask.copy(), radius=radius,
                                      threshold=thr, data=wit)
                if not ok:
                    return
                centers, neighbors = out
                ctx.case('centers', sig, sample={'shape': shape, 'mask': mname, 'radius': radius, 'threshold': thr,
                                                 'n_centers': len(want_centers)})
                want_lin = [int(np.ravel_multi_index(c, shape)) for c in want_centers]
                if [int(v) for v in centers] != want_lin:
                    ctx.fail('centers', dict(what='accepted_centers'), f'accepted centres {list(map(int, centers))} != '
                             f'mask voxels whose searchlight lies in the mask by >= {thr}: {want_lin}',
                             wit(got=centers, want=want_lin))
                    return
                for c, lin, nb in zip(want_centers, want_lin, neighbors):
                    want_nb = sorted(int(np.ravel_multi_index(v, shape)) for v in nb_ref[c])
                    if sorted(int(v) for v in nb) != want_nb:
                        ctx.fail('centers', dict(what='neighbor_list_of_center'), f'neighbour list returned for centre '
                                 f'{lin} does not hold the linear indices of its searchlight', wit(center=lin))
                        return


def direct_rdm(data, events, method):
    labs = np.unique(events)
    means = np.array([data[events == lab].mean(axis=0) for lab in labs])
    n = len(labs)
    out = []
    for i in range(n):
        for j in range(i + 1, n):
            if method == 'euclidean':
                d = means[i] - means[j]
                out.append(float(d @ d) / means.shape[1])
            else:
                a, b = means[i] - means[i].mean(), means[j] - means[j].mean()
                out.append(1 - float(a @ b) / np.sqrt(float(a @ a) * float(b @ b)))
    return np.array(out)


def run_rdms(ctx, chunked, dtype='float', caller_order=None, unique_events=False, force_method=None):
    rng = ctx.rng
    if chunked:
        shape, radius, thr = (11, 11, 11), 1.5, 0.4
    else:
        shape = tuple(int(v) for v in rng.integers(3, 6, size=3))
        radius, thr = float(gen.pick(rng, [1.5, 2, 2.5])), float(gen.pick(rng, [0.5, 0.8, 1.0]))
    mask = np.ones(shape, bool) if chunked or rng.integers(2) else rng.random(shape) < 0.8
    if rng.integers(2):
        mask = np.asfortranarray(mask)      # column-major storage, as neuroimaging readers deliver volumes
    try:
        centers, neighbors = SL.get_volume_searchlight(mask, radius=radius, threshold=thr)
    except Exception:
        ctx.count('rejected_no_centre')
        return
    center_order = 'ascending'
    if (rng.integers(2) if caller_order is None else caller_order):
        # the caller's own order of centres (two hemispheres concatenated, a region-wise list): results follow that order
        perm = rng.permutation(len(centers))
        centers = np.asarray(centers)[perm]
        neighbors = [neighbors[int(i)] for i in perm]
        center_order = 'caller'
    n_cond = int(rng.integers(3, 6))
    reps = 1 if unique_events else int(rng.integers(1, 4))     # unique_events: every event label occurs once
    events = np.array([c for _ in range(reps) for c in rng.permutation(n_cond)])
    if rng.integers(2):
        events = np.array([f'ev{c}' for c in events])
    data = rng.standard_normal((len(events), int(np.prod(shape))))
    if dtype == 'int':
        # e.g. raw scanner units / counts, in a wide or a narrow integer type
        data = rng.integers(-20, 21, size=data.shape).astype(np.int64 if rng.integers(2) else np.int8)
    if dtype == 'int8':
        data = rng.integers(-20, 21, size=data.shape).astype(np.int8)
    method = force_method or gen.pick(rng, ['correlation', 'euclidean'])
    check = 'rdm_chunked' if chunked else 'rdm_small'
    sig = dict(what=check, method=method, chunked=chunked, n_centers='>1000' if len(centers) > 1000 else '<=1000',
               dtype=dtype, center_order=center_order)
    wit = lambda **k: dict(shape=shape, radius=radius, threshold=thr, events=events, method=method,  # noqa: E731
                           n_centers=len(centers), **k)
    if chunked and len(centers) <= 1000:
        ctx.notes.append(f'chunked case has only {len(centers)} centres')
        return
    if len(centers) % 2:      # the options by position in their documented order, or by keyword
        ok, rd = ctx.guarded(check, sig, SL.get_searchlight_RDMs, data, centers, neighbors, events, method, False, data=wit)
    else:
        ok, rd = ctx.guarded(check, sig, SL.get_searchlight_RDMs, data, centers, neighbors, events, method=method,
                             verbose=False, data=wit)
    if not ok:
        return
    ctx.case(check, sig, sample={'shape': shape, 'n_centers': len(centers), 'method': method, 'radius': radius})
    if rd.n_rdm != len(centers) or [int(v) for v in rd.rdm_descriptors['voxel_index']] != [int(c) for c in centers]:
        ctx.fail(check, dict(sig, what='voxel_index'), 'rdm_descriptors[voxel_index] != centres', wit())
        return
    idx = range(len(centers)) if not chunked else list(range(0, len(centers), 7)) + list(range(len(centers) - 40, len(centers)))
    for i in idx:
        nb = np.asarray(neighbors[i])
        if method == 'correlation' and len(nb) < 3:
            continue
        want = direct_rdm(data[:, nb].astype(float), events, method)
        ctx.count('centres_enumerated')
        if np.any(np.isnan(want)):
            continue
        if not close(rd.dissimilarities[i], want, 1e-9, 1e-10):
            ctx.fail(check, dict(sig, what='rdm_of_center'), f'RDM reported for centre #{i} (voxel {int(centers[i])}) differs '
                     f'from the RDM of the data columns of its searchlight: maxdiff '
                     f'{maxdiff(rd.dissimilarities[i], want)}', wit(center_index=i))
            return


# ---- schedule perturbation ------------------------------------------------------------------------------------
def slow_eval(models, x, method='corr', theta=None):
    """user evaluation function: sleeps a centre-dependent time (later centres finish first) and reports what it saw"""
    vox = int(np.asarray(x.rdm_descriptors['voxel_index'])[0])
    delay = float(np.asarray(x.rdm_descriptors['delay'])[0])
    t0 = time.monotonic()
    time.sleep(delay)
    from rsatoolbox.rdm import compare
    val = float(np.mean(compare(models[0].predict_rdm(theta[0] if theta is not None else None), x, method)))
    return dict(voxel=vox, value=val, pid=os.getpid(), start=t0, end=time.monotonic())


def run_schedules(ctx, weighted=False, reorder=False, two_runs=False):
    from rsatoolbox.model import ModelFixed
    rng = ctx.rng
    n = int(rng.integers(10, 17))
    n_cond = 5
    vecs = gen.rdm_vectors(rng, n, n_cond, 'pos')
    vox = [int(v) for v in rng.permutation(200)[:n]]
    if two_runs:
        # the searchlight RDMs of two runs over the same mask, concatenated: every centre occurs twice, with different
        # RDMs -- one result per RDM of the object, in its order
        n = 2 * (n // 2)
        vecs, vox = vecs[:n], vox[:n // 2] * 2
    from rsatoolbox.model import ModelWeighted
    if weighted:     # explicit parameters must reach the evaluation function for every n_jobs
        model = ModelWeighted('w', RDMs(gen.rdm_vectors(rng, 2, n_cond, 'pos')))
        theta = [np.array([1.0, 0.0]) if rng.integers(2) else rng.uniform(0.1, 1, size=2)]
        direct = [float(np.mean(__import__('rsatoolbox').rdm.compare(model.predict_rdm(theta[0]), RDMs(v.reshape(1, -1)),
                                                                      'corr'))) for v in vecs]
    else:
        model = ModelFixed('m', RDMs(gen.rdm_vectors(rng, 1, n_cond, 'pos')))
        theta, direct = None, None
        if two_runs:
            direct = [float(np.mean(__import__('rsatoolbox').rdm.compare(model.predict_rdm(), RDMs(v.reshape(1, -1)), 'corr')))
                      for v in vecs]
    reordered_seen = False
    orders = []
    for attempt, scale in enumerate((0.004, 0.012, 0.03)):
        delays = [scale * (n - i) for i in range(n)]       # later centres finish first
        sl = RDMs(vecs.copy(), rdm_descriptors={'voxel_index': vox, 'delay': delays})
        if two_runs:
            from rsatoolbox.rdm import concat
            h = n // 2
            sl = concat(RDMs(vecs[:h].copy(), rdm_descriptors={'voxel_index': vox[:h], 'delay': delays[:h]}),
                        RDMs(vecs[h:].copy(), rdm_descriptors={'voxel_index': vox[h:], 'delay': delays[h:]}))
        if attempt == 0 and reorder:
            # the searchlight RDMs are a selection in the caller's order (a region of interest picked out of a whole-brain
            # result): the library-managed 'index' then no longer counts 0..n-1; results follow the order of the object
            order = [int(i) for i in rng.permutation(n)]
            sl = sl.subsample('voxel_index', [vox[i] for i in order])
            vox = [vox[i] for i in order]
            vecs = vecs[order]
            if direct is not None:
                direct = [direct[i] for i in order]
            ctx.count('searchlight_rdms_reordered_by_caller')
        base = None
        for n_jobs in (1, 2, 4):
            sig = dict(what='parallel_order', n_jobs=n_jobs)
            wit = lambda **k: dict(n=n, voxels=vox, n_jobs=n_jobs, **k)  # noqa: E731
            try:
                res = SL.evaluate_models_searchlight(sl, [model], slow_eval, method='corr', theta=theta, n_jobs=n_jobs)
            except Exception as exc:
                ctx.fail('parallel_order', dict(sig, what='raised', exception=type(exc).__name__), repr(exc), wit())
                return
            ctx.case('parallel_order', dict(sig, attempt=attempt))
            if len(res) != n or [r['voxel'] for r in res] != vox:
                ctx.fail('parallel_order', dict(sig, what='result_order'), f'results belong to centres '
                         f'{[r["voxel"] for r in res]}, expected centre order {vox}', wit())
                return
            if direct is not None and not close(np.array([r['value'] for r in res]), np.array(direct), 1e-12, 1e-14):
                ctx.fail('parallel_order', dict(sig, what='theta_not_forwarded'), f'n_jobs={n_jobs}: values are not those of '
                         f'the model at the parameters passed as theta (or not those of the RDM at that position)', wit(theta=theta))
                return
            if base is None:
                base = [r['value'] for r in res]
            elif [r['value'] for r in res] != base:
                ctx.fail('parallel_order', dict(sig, what='values_depend_on_n_jobs'), 'values differ from n_jobs=1', wit())
                return
            comp = [i for i, _ in sorted(enumerate(res), key=lambda t: t[1]['end'])]
            orders.append((n_jobs, tuple(comp), len(set(r['pid'] for r in res))))
            if n_jobs > 1 and comp != sorted(comp):
                reordered_seen = True
        if reordered_seen:
            break
    ctx.count('completion_orders_seen', len(set(o[1] for o in orders)))
    ctx.count('out_of_order_completions_observed' if reordered_seen else 'schedule_clause_not_exercised')
    ctx.notes.append(f'completion orders: {[(o[0], o[2], list(o[1])) for o in orders][:6]}')


def run(ctx):
    run_membership(ctx)
    n = ctx.n(12, 100)
    for it in range(n):
        if ctx.out_of_time():
            break
        run_rdms(ctx, False)
    for it in range(ctx.n(4, 20)):
        run_rdms(ctx, False, dtype='int')
        # narrow integers, one observation per condition, a method that does not centre first
        run_rdms(ctx, False, dtype='int8', unique_events=True, force_method='euclidean')
    if ctx.shard == 0:
        run_rdms(ctx, True, dtype=gen.pick(ctx.rng, ['float', 'int']), caller_order=False)
        run_rdms(ctx, True, dtype='int8', caller_order=True)
        run_schedules(ctx, weighted=False, reorder=True)
        run_schedules(ctx, weighted=True, reorder=False)
        run_schedules(ctx, weighted=False, reorder=False, two_runs=True)
    else:
        ctx.count('check:rdm_chunked')
        ctx.count('check:parallel_order')
