"""C13  Missing dissimilarities are ignored consistently or rejected, never misaligned.

Monitor: result monitor on compare / pool_rdm (both modules) / boot_noise_ceiling / fit_regress(_nn) /
RDMs.mean / rescale with NaN-bearing RDMs; must-raise monitor for differing masks.
Oracle: entry-deleted recomputation (whitened: rows/columns of V deleted); nan-aware weighted mean;
per-RDM positive scaling law for rescale.
"""
import numpy as np
import scipy.optimize

from rsatoolbox.inference import boot_noise_ceiling
from rsatoolbox.model import ModelWeighted, fit_regress, fit_regress_nn
from rsatoolbox.rdm import RDMs, compare
from rsatoolbox.rdm.combine import rescale
from rsatoolbox.util import inference_util, pooling
from vlib import gen, ref
from vlib.core import close, maxdiff
from props.c03 import ref_value

LEVEL = 'exploration'
LEVEL_TEXT = ('Seeded exploration of the real NaN handling under a result monitor: with a common mask every '
              'measure / pooled RDM / noise ceiling / regression fit is compared with the computation on '
              'entry-deleted vectors; masks that differ in position but not in count must raise; RDMs.mean and '
              'rescale are checked against a nan-aware weighted reference and the one-positive-constant law. '
              'Held on the K executions observed.')
LEVEL_NOTE = ('Trusted: vlib.ref measure definitions, numpy lstsq / scipy nnls. Whitened results compared at '
              '5e-4 (library uses conjugate gradients). Bures measures are excluded (undefined on partial RDMs).')
DESIGN_REF = 'DESIGN.md section 4 / C13'
TECHNIQUE = 'runtime result monitor vs entry-deleted recomputation + must-raise monitor for differing masks'
RULE = ('seeded generator over {mask class (random / bootstrap-shaped / partial-shaped) x measure x sigma_k '
        'class x stack sizes} for common masks, {between-stack / within-stack differing masks with equal '
        'counts}, {weights none/descriptor/array} and {rescale method}; non-trivial: >=3 remaining entries; '
        'distinct = configuration signature')
ASSUMPTIONS = ['at least 3 non-missing entries remain and remaining vectors are non-constant',
               'Bures measures excluded', 'sigma_k SPD cond <= 30']
MEASURES = ['cosine', 'corr', 'spearman', 'kendall', 'tau-a', 'rho-a', 'cosine_cov', 'corr_cov']
REQUIRED = ['check:common_mask:' + m for m in MEASURES] + \
           ['check:differing_masks_between', 'check:differing_masks_within', 'check:differing_masks_fit', 'check:partials_alignment', 'check:pool_common_mask',
            'check:ceiling_common_mask', 'check:fit_common_mask', 'check:mean', 'check:rescale',
            'must_raise_observed']
REACH = ['_parse_input_rdms', '_parse_nan_vectors', '_cov_weighting', '_cosine_cov_weighted_slow', 'pool_rdm',
         '_nan_mean', '_nan_rank_data', '_mean', '_rescale', 'rescale', 'RDMs.mean', 'fit_regress',
         'fit_regress_nn', 'boot_noise_ceiling']
FAIL_KEYS = ['measure', 'sigma', 'mask', 'where', 'weights', 'method', 'module', 'fitter']
TIME_BUDGET = {'quick': 70, 'thorough': 700}

TRI = {3: 3, 4: 6, 5: 10, 6: 15, 7: 21, 8: 28}


def make_mask(rng, n_cond, kind):
    """boolean keep-mask over the n_cond*(n_cond-1)/2 entries"""
    n_pair = TRI[n_cond]
    iu = np.triu_indices(n_cond, 1)
    if kind == 'random':
        k = int(rng.integers(1, max(2, n_pair - 3)))
        drop = rng.choice(n_pair, size=min(k, n_pair - 3), replace=False)
        keep = np.ones(n_pair, bool)
        keep[drop] = False
    elif kind == 'bootstrap':   # conditions drawn with replacement: pairs of copies are missing
        draw = np.sort(rng.integers(0, max(2, n_cond - 1), size=n_cond))
        keep = draw[iu[0]] != draw[iu[1]]
    elif kind == 'partial':     # some conditions absent from this (partial) RDM
        k = int(rng.integers(1, max(2, n_cond - 2)))
        gone = rng.choice(n_cond, size=min(k, n_cond - 3) if n_cond > 3 else 0, replace=False)
        keep = ~(np.isin(iu[0], gone) | np.isin(iu[1], gone))
    elif kind == 'tri':         # random mask leaving a triangular number of entries (for metamorphic re-runs)
        targets = [t for t in TRI.values() if 3 <= t < n_pair]
        t = int(gen.pick(rng, targets))
        keep = np.zeros(n_pair, bool)
        keep[rng.choice(n_pair, size=t, replace=False)] = True
    else:
        raise ValueError(kind)
    return keep


def usable(vs, keep):
    if keep.sum() < 3 or keep.all():
        return False
    for v in vs:
        if np.ptp(v[keep]) < 1e-9:
            return False
    return True


def sigma_of(rng, n_cond, sk):
    if sk == 'vector':
        return rng.uniform(0.5, 3.0, size=n_cond)
    if sk == 'matrix':
        return gen.spd(rng, n_cond, 30.0)
    return None


def ref_masked(m, x, y, keep, n_cond, sigma):
    if m in ('cosine_cov', 'corr_cov'):
        v = ref.v_matrix(n_cond, sigma)[np.ix_(keep, keep)]
        f = ref.whitened_cosine if m == 'cosine_cov' else ref.whitened_corr
        return f(x[keep], y[keep], v)
    return ref_value(m, x[keep], y[keep], None, None)


def run_common(ctx, m):
    rng = ctx.rng
    n_cond = int(rng.integers(4, 8))
    mk = gen.pick(rng, ['random', 'bootstrap', 'partial'])
    keep = make_mask(rng, n_cond, mk)
    n1, n2 = int(rng.integers(1, 4)), int(rng.integers(1, 4))
    kind = gen.pick(rng, ['pos', 'ties', 'neg', 'eucl'])
    v1 = gen.rdm_vectors(rng, n1, n_cond, kind)
    v2 = gen.rdm_vectors(rng, n2, n_cond, gen.pick(rng, ['pos', 'ties', 'eucl']))
    # a quarter of the stacks are stored in single precision (partial RDMs read from a float32 file): missing entries are
    # missing entries whatever the width of the floats; the reference works on the values as stored
    f32 = bool(rng.integers(4) == 0)
    if f32:
        v1, v2 = v1.astype(np.float32).astype(float), v2.astype(np.float32).astype(float)
    if not usable(list(v1) + list(v2), keep):
        ctx.count('rejected_degenerate')
        return
    sk = gen.pick(rng, ['none', 'vector', 'matrix']) if m.endswith('_cov') else 'none'
    sigma = sigma_of(rng, n_cond, sk)
    a, b = v1.copy(), v2.copy()
    a[:, ~keep] = np.nan
    b[:, ~keep] = np.nan
    sig = dict(measure=m, sigma=sk, mask=mk, values=kind, shape=f'{n1}x{n2}')
    kw = {'sigma_k': sigma} if m.endswith('_cov') else {}
    wit = lambda **k: dict(measure=m, a=a, b=b, sigma_k=sigma, n_cond=n_cond, **k)  # noqa: E731
    as_rdms = bool(rng.integers(2))
    st = (lambda z: z.astype(np.float32)) if f32 else (lambda z: z.copy())
    ok, got = ctx.guarded('common_mask:' + m, sig, compare, RDMs(st(a)) if as_rdms else st(a),
                          RDMs(st(b)) if as_rdms else st(b), method=m, data=wit, **kw)
    if not ok:
        return
    ctx.case('common_mask:' + m, sig, sample={'measure': m, 'mask': mk, 'keep': keep, 'sigma': sk})
    want = np.array([[ref_masked(m, x, y, keep, n_cond, sigma) for y in v2] for x in v1])
    rt, at = (5e-4, 5e-5) if (m.endswith('_cov') and sk != 'none') else (1e-8, 1e-9)
    if np.asarray(got).shape != want.shape or not close(got, want, rt, at):
        ctx.fail('common_mask:' + m, sig, f'{m} with common NaN mask != value on entry-deleted vectors: '
                 f'maxdiff {maxdiff(got, want)}', wit(got=got, want=want))


def run_differing(ctx):
    rng = ctx.rng
    n_cond = int(rng.integers(4, 8))
    n_pair = TRI[n_cond]
    k = int(rng.integers(1, n_pair - 3))
    cols1 = np.sort(rng.choice(n_pair, size=k, replace=False))
    cols2 = cols1.copy()
    # move at least one missing position
    free = np.setdiff1d(np.arange(n_pair), cols1)
    j = int(rng.integers(k))
    cols2[j] = int(gen.pick(rng, list(free)))
    m = gen.pick(rng, MEASURES)
    sk = gen.pick(rng, ['none', 'matrix']) if m.endswith('_cov') else 'none'
    sigma = sigma_of(rng, n_cond, sk)
    kw = {'sigma_k': sigma} if m.endswith('_cov') else {}
    v1 = gen.rdm_vectors(rng, int(rng.integers(1, 4)), n_cond, 'pos')
    v2 = gen.rdm_vectors(rng, int(rng.integers(1, 4)), n_cond, 'pos')
    # between stacks: equal counts at other positions / one stack complete / different counts
    a, b = v1.copy(), v2.copy()
    variant = gen.pick(rng, ['moved', 'moved', 'first_complete', 'second_complete', 'fewer'])
    if variant == 'moved':
        a[:, cols1] = np.nan
        b[:, cols2] = np.nan
    elif variant == 'first_complete':
        b[:, cols2] = np.nan
    elif variant == 'second_complete':
        a[:, cols1] = np.nan
    else:
        a[:, cols1] = np.nan
        b[:, cols2[:max(1, k - 1)] if k > 1 else np.setdiff1d(np.arange(n_pair), cols1)[:2]] = np.nan
    sig = dict(measure=m, sigma=sk, where='between_' + variant)
    ctx.case('differing_masks_between', sig)
    try:
        got = compare(RDMs(a), RDMs(b), method=m, **kw)
        ctx.fail('differing_masks_between', sig, f'stacks missing different entries (same count {k}) were '
                 f'compared instead of rejected: returned {np.asarray(got).tolist()}',
                 dict(a=a, b=b, measure=m, missing1=cols1, missing2=cols2))
    except ValueError:
        ctx.count('must_raise_observed')
    except Exception as exc:  # another error type still rejects the input; the property asks for an error
        ctx.count('must_raise_observed')
        ctx.count('rejected_with_' + type(exc).__name__)
    # within one stack (needs >= 2 RDMs)
    if v1.shape[0] >= 2:
        a = v1.copy()
        a[0, cols1] = np.nan
        a[1:, cols2] = np.nan
        b = v2.copy()
        b[:, cols1] = np.nan
        # ... also when both arguments lack the same *union* of entries: the stack against itself, and against a stack
        # blanked wherever any RDM of the first misses a value (a group model prepared for partial subject RDMs)
        u = v2.copy()
        u[:, np.union1d(cols1, cols2)] = np.nan
        for first, second, which in ((a, b, 'first'), (b, a, 'second'), (a, a, 'both_same_stack'),
                                     (a, u, 'first_union_blanked'), (u, a, 'second_union_blanked')):
            sig = dict(measure=m, sigma=sk, where='within_' + which)
            ctx.case('differing_masks_within', sig)
            try:
                got = compare(RDMs(first.copy()), RDMs(second.copy()), method=m, **kw)
                ctx.fail('differing_masks_within', sig, f'RDMs of the {which} stack miss different entries '
                         f'(same count) but were compared: returned {np.asarray(got).tolist()}',
                         dict(a=first, b=second, measure=m))
            except ValueError:
                ctx.count('must_raise_observed')
            except Exception as exc:
                ctx.count('must_raise_observed')
                ctx.count('rejected_with_' + type(exc).__name__)


    # regression fits: a component RDM of the model (any, not only the first) or the data missing other entries
    if k >= 1:
        nb = int(rng.integers(2, 4))
        basis = gen.rdm_vectors(rng, nb, n_cond, 'pos')
        data = gen.rdm_vectors(rng, int(rng.integers(1, 3)), n_cond, 'pos')
        odd = int(rng.integers(nb + 1))          # nb = the data are the odd one out
        basis[:, cols1] = np.nan
        data[:, cols1] = np.nan
        if odd < nb:
            basis[odd] = gen.rdm_vectors(rng, 1, n_cond, 'pos')[0]
            basis[odd, cols2] = np.nan
        else:
            data = gen.rdm_vectors(rng, data.shape[0], n_cond, 'pos')
            data[:, cols2] = np.nan
        fm = gen.pick(rng, ['cosine', 'corr', 'cosine_cov', 'corr_cov'])
        fname = gen.pick(rng, ['fit_regress', 'fit_regress_nn'])
        sig = dict(measure=fm, sigma='none', where='fit_' + ('data' if odd == nb else 'first_component' if odd == 0
                                                             else 'later_component'), fitter=fname)
        ctx.case('differing_masks_fit', sig)
        try:
            th = (fit_regress if fname == 'fit_regress' else fit_regress_nn)(ModelWeighted('m', RDMs(basis.copy())),
                                                                             RDMs(data.copy()), method=fm)
            ctx.fail('differing_masks_fit', sig, f'{fname}: model component {odd if odd < nb else "(data)"} misses other '
                     f'entries than the rest (same count {k}) but a fit was returned: {np.asarray(th).tolist()}',
                     dict(basis=basis, data=data, method=fm, missing1=cols1, missing2=cols2))
        except ValueError:
            ctx.count('must_raise_observed')
        except Exception as exc:
            ctx.count('must_raise_observed')
            ctx.count('rejected_with_' + type(exc).__name__)


POOL_METHODS = ['cosine', 'corr', 'spearman', 'rho-a', 'kendall', 'tau-a', 'euclid']


def run_pool_and_ceiling(ctx):
    """metamorphic: NaN-bearing stack vs the stack of the remaining entries (a mask leaving a triangular
    number of entries lets the real functions run on the entry-deleted vectors as an RDMs object)"""
    rng = ctx.rng
    n_cond = int(rng.integers(5, 9))
    keep = make_mask(rng, n_cond, 'tri')
    n_rdm = int(rng.integers(2, 6))
    v = gen.rdm_vectors(rng, n_rdm, n_cond, gen.pick(rng, ['pos', 'ties', 'eucl']))
    if not usable(list(v), keep):
        ctx.count('rejected_degenerate')
        return
    a = v.copy()
    a[:, ~keep] = np.nan
    d = v[:, keep].copy()
    for modname, mod in (('inference_util', inference_util), ('pooling', pooling)):
        m = gen.pick(rng, POOL_METHODS if modname == 'inference_util' else POOL_METHODS[:-1] + ['euclid'])
        sig = dict(method=m, module=modname)
        wit = lambda **k: dict(a=a, method=m, module=modname, **k)  # noqa: E731
        ok, p_nan = ctx.guarded('pool_common_mask', sig, mod.pool_rdm, RDMs(a.copy()), method=m, data=wit)
        ok2, p_del = ctx.guarded('pool_common_mask', sig, mod.pool_rdm, RDMs(d.copy()), method=m, data=wit)
        if not (ok and ok2):
            continue
        ctx.case('pool_common_mask', sig)
        pn = p_nan.dissimilarities
        if pn.shape != (1, a.shape[1]) or not np.array_equal(np.isnan(pn[0]), ~keep):
            ctx.fail('pool_common_mask', sig, 'pooled RDM must be missing exactly the commonly missing entries',
                     wit(pooled=pn))
            continue
        x, y = pn[0, keep], p_del.dissimilarities[0]
        if not close(x, y, 1e-9, 1e-10):
            ctx.fail('pool_common_mask', sig, f'pooled RDM differs from pooling the entry-deleted RDMs: '
                     f'{maxdiff(x, y)}', wit(pooled=pn, pooled_deleted=y))
    # noise ceiling
    m = gen.pick(rng, ['cosine', 'corr', 'spearman', 'rho-a', 'tau-a'])
    sig = dict(method=m)
    wit = lambda **k: dict(a=a, method=m, **k)  # noqa: E731
    ok, c_nan = ctx.guarded('ceiling_common_mask', sig, boot_noise_ceiling, RDMs(a.copy()), method=m, data=wit)
    ok2, c_del = ctx.guarded('ceiling_common_mask', sig, boot_noise_ceiling, RDMs(d.copy()), method=m, data=wit)
    if ok and ok2:
        ctx.case('ceiling_common_mask', sig)
        if not close(c_nan, c_del, 1e-9, 1e-10):
            ctx.fail('ceiling_common_mask', sig, f'noise ceiling with common NaNs {c_nan} != on entry-deleted '
                     f'RDMs {c_del}', wit())


def run_fit(ctx):
    """regression fits on bootstrap-shaped NaNs == least squares on the entry-deleted vectors"""
    rng = ctx.rng
    n_cond = int(rng.integers(5, 8))
    n_basis = int(rng.integers(2, 4))
    basis = gen.rdm_vectors(rng, n_basis, n_cond, 'pos')
    n_data = int(rng.integers(1, 4))
    w_true = rng.uniform(0.2, 2, size=n_basis)
    data_full = np.array([w_true @ basis + 0.3 * rng.standard_normal(basis.shape[1]) for _ in range(n_data)])
    idx = np.sort(rng.integers(0, n_cond, size=n_cond))
    if len(np.unique(idx)) < 4:
        ctx.count('rejected_degenerate')
        return
    model = ModelWeighted('m', RDMs(basis.copy(), pattern_descriptors={'index': list(range(n_cond))}))
    data_s = np.array([ref.subsample_vector(dv, n_cond, idx) for dv in data_full])
    basis_s = np.array([ref.subsample_vector(bv, n_cond, idx) for bv in basis])
    keep = ~np.isnan(data_s[0])
    if keep.sum() < n_basis + 2:
        ctx.count('rejected_degenerate')
        return
    data_obj = RDMs(data_s.copy(), pattern_descriptors={'index': [int(i) for i in idx]})
    method = gen.pick(rng, ['cosine', 'corr', 'cosine_cov', 'corr_cov'])
    fitter_name = gen.pick(rng, ['fit_regress', 'fit_regress_nn'])
    fitter = fit_regress if fitter_name == 'fit_regress' else fit_regress_nn
    sig = dict(method=method, fitter=fitter_name, mask='bootstrap')
    wit = lambda **k: dict(basis=basis, data=data_s, idx=idx, method=method, fitter=fitter_name, **k)  # noqa: E731
    ok, theta = ctx.guarded('fit_common_mask', sig, fitter, model, data_obj, method=method, pattern_idx=idx,
                            pattern_descriptor='index', data=wit)
    if not ok:
        return
    ctx.case('fit_common_mask', sig)
    theta = np.asarray(theta, dtype=float).ravel()
    X = basis_s[:, keep].T
    D = data_s[:, keep]
    n_sub = len(idx)
    if method.endswith('_cov'):
        V = ref.v_matrix(n_sub, None)[np.ix_(keep, keep)]
        Vi = np.linalg.inv(V)
    else:
        Vi = np.eye(keep.sum())
    if method.startswith('corr'):
        X = X - X.mean(axis=0, keepdims=True)
        D = D - D.mean(axis=1, keepdims=True)
    y = np.mean([dv / np.sqrt(dv @ Vi @ dv) for dv in D], axis=0)

    def score(th):
        pred = X @ th
        den = np.sqrt(pred @ Vi @ pred)
        if den < 1e-14:
            return -np.inf
        return float(np.mean([(pred @ Vi @ dv) / den / np.sqrt(dv @ Vi @ dv) for dv in D]))
    if fitter_name == 'fit_regress':
        th_ref = np.linalg.solve(X.T @ Vi @ X, X.T @ Vi @ y)
    else:
        L = np.linalg.cholesky(Vi)
        th_ref, _ = scipy.optimize.nnls(L.T @ X, L.T @ y)
    s_got, s_ref = score(theta), score(th_ref)
    tol = 5e-4 if method.endswith('_cov') else 1e-7
    if not np.isfinite(s_ref):
        ctx.count('degenerate_skipped')    # the entry-deleted (non-negative) least-squares solution is the zero vector
    elif not np.isfinite(s_got) or s_got < s_ref - tol:
        ctx.fail('fit_common_mask', sig, f'fit on NaN-bearing bootstrap sample scores {s_got} on the '
                 f'entry-deleted vectors, the entry-deleted least-squares solution scores {s_ref}',
                 wit(theta=theta, theta_ref=th_ref))
    if fitter_name == 'fit_regress_nn' and np.any(theta < -1e-12):
        ctx.fail('fit_common_mask', sig, f'negative weight {theta}', wit())


def run_mean(ctx):
    rng = ctx.rng
    n_cond = int(rng.integers(3, 7))
    n_rdm = int(rng.integers(2, 6))
    v = gen.rdm_vectors(rng, n_rdm, n_cond, gen.pick(rng, ['pos', 'neg', 'ties']))
    mk = gen.pick(rng, ['none', 'per_rdm', 'common'])
    a = v.copy()
    if mk == 'per_rdm':
        miss = rng.random(a.shape) < 0.35
        a[miss] = np.nan
    elif mk == 'common':
        cols = rng.choice(a.shape[1], size=max(1, a.shape[1] // 3), replace=False)
        a[:, cols] = np.nan
    wk = gen.pick(rng, ['none', 'descriptor', 'array'])
    wdesc = rng.uniform(0.2, 3, size=n_rdm)
    warr = rng.uniform(0.2, 3, size=a.shape)
    rd = RDMs(a.copy(), rdm_descriptors={'w': gen.wrap(list(wdesc), gen.pick(rng, gen.CONTAINERS)), 'subj': [f's{i}' for i in range(n_rdm)]},
              pattern_descriptors={'cond': [f'c{i}' for i in range(n_cond)]}, descriptors={'exp': 'x'},
              dissimilarity_measure='euclidean')
    sig = dict(weights=wk, mask=mk)
    wit = lambda **k: dict(a=a, weights_kind=wk, wdesc=wdesc, warr=warr, **k)  # noqa: E731
    if wk == 'none':
        arg, w = None, np.ones(a.shape)
    elif wk == 'descriptor':
        arg, w = 'w', np.tile(wdesc[:, None], (1, a.shape[1]))
    else:
        # per-entry weights as a C-ordered or a column-major array (np.tile(w, (n_pairs, 1)).T is column-major)
        arg, w = (np.asfortranarray(warr) if rng.integers(2) else warr.copy()), warr
    ok, out = ctx.guarded('mean', sig, rd.mean, arg, data=wit)
    if not ok:
        return
    ctx.case('mean', sig, sample={'weights': wk, 'mask': mk, 'n_rdm': n_rdm})
    if wk == 'array' and not np.array_equal(arg, warr):
        ctx.fail('mean', dict(sig, aspect='weights_modified'), 'RDMs.mean wrote into the weights array it was '
                 'given', wit(after=arg))
    if not np.array_equal(np.asarray(rd.rdm_descriptors['w'], dtype=float), wdesc) or \
            not np.array_equal(rd.dissimilarities, a, equal_nan=True):
        ctx.fail('mean', dict(sig, aspect='source_modified'), 'RDMs.mean modified the source object', wit())
    fin = ~np.isnan(a)
    with np.errstate(invalid='ignore', divide='ignore'):
        num = np.where(fin, a * w, 0).sum(axis=0)
        den = np.where(fin, w, 0).sum(axis=0)
        want = np.where(den > 0, num / den, np.nan)
    got = out.dissimilarities
    if got.shape != (1, a.shape[1]) or not close(got[0], want, 1e-10, 1e-12):
        ctx.fail('mean', sig, f'RDMs.mean(weights={wk}) != nan-aware weighted mean: maxdiff '
                 f'{maxdiff(got[0] if got.ndim == 2 else got, want)}', wit(got=got, want=want))
        return
    if [str(x) for x in out.pattern_descriptors.get('cond', [])] != [f'c{i}' for i in range(n_cond)]:
        ctx.fail('mean', dict(sig, aspect='descriptors'), 'pattern descriptors lost', wit())
    if not isinstance(out.descriptors, dict):
        ctx.fail('mean', dict(sig, aspect='descriptors'), f'descriptors is {type(out.descriptors).__name__}', wit())


def run_partials(ctx):
    """NaN masks as produced by from_partials: partial RDMs over subsets of the conditions, each listing its conditions
    in its own order; the combined stack holds every value at its own label pair (NaN elsewhere) and the mean / rescale
    of the stack therefore average the same pair"""
    from rsatoolbox.rdm.combine import from_partials
    rng = ctx.rng
    n_cond = int(rng.integers(4, 8))
    labels = [f'c{i}' for i in range(n_cond)]
    iu = np.triu_indices(n_cond, 1)
    parts, srcs = [], []
    k = int(rng.integers(2, 5))
    for r in range(k):
        m = int(rng.integers(3, n_cond + 1))
        sub = [int(i) for i in rng.choice(n_cond, size=m, replace=False)]       # own (unsorted) order
        if r == 0:
            sub = list(range(n_cond)) if rng.integers(2) else sub
        m = len(sub)
        full = {frozenset((a, b)): float(100 * (r + 1) + 10 * min(a, b) + max(a, b)) for a, b in zip(iu[0], iu[1])}
        ju = np.triu_indices(m, 1)
        vec = np.array([full[frozenset((sub[a], sub[b]))] for a, b in zip(ju[0], ju[1])])
        parts.append(RDMs(vec.reshape(1, -1), pattern_descriptors={'cond': [labels[i] for i in sub]}))
        srcs.append((sub, full))
    sig = dict(mask='from_partials', weights='none')
    wit = lambda **x: dict(partials=[(s_, p.dissimilarities) for (s_, _), p in zip(srcs, parts)], **x)  # noqa: E731
    all_pat = gen.pick(rng, [None, list(labels), [labels[int(i)] for i in rng.permutation(n_cond)]])
    kw = {} if all_pat is None else {'all_patterns': all_pat}
    ok, comb = ctx.guarded('partials_alignment', sig, from_partials, parts, descriptor='cond', data=wit, **kw)
    if not ok:
        return
    ctx.case('partials_alignment', sig)
    got_lab = [str(v) for v in comb.pattern_descriptors['cond']]
    if all_pat is not None and got_lab != all_pat:
        ctx.fail('partials_alignment', dict(sig, where='labels'), f'pattern order {got_lab} != all_patterns {all_pat}', wit())
        return
    mats = comb.get_matrices()
    pos = {lab: i for i, lab in enumerate(got_lab)}
    if all_pat is None and set(pos) != set(lab for (sub, _) in srcs for lab in (labels[i] for i in sub)):
        ctx.fail('partials_alignment', dict(sig, where='labels'), f'combined conditions {got_lab}', wit())
        return
    want_mean = {}
    for r, (sub, full) in enumerate(srcs):
        present = set(sub)
        for a in range(n_cond):
            for b in range(a + 1, n_cond):
                if labels[a] not in pos or labels[b] not in pos:
                    continue
                g = mats[r, pos[labels[a]], pos[labels[b]]]
                if a in present and b in present:
                    if g != full[frozenset((a, b))]:
                        ctx.fail('partials_alignment', dict(sig, where='values'), f'RDM {r}: value at ({labels[a]},'
                                 f'{labels[b]}) is {g!r}, the partial RDM has {full[frozenset((a, b))]!r} there', wit())
                        return
                    want_mean.setdefault((a, b), []).append(full[frozenset((a, b))])
                elif not np.isnan(g):
                    ctx.fail('partials_alignment', dict(sig, where='values'), f'RDM {r}: value {g!r} at ({labels[a]},'
                             f'{labels[b]}) although the partial RDM does not contain that pair', wit())
                    return
    mean = comb.mean().get_matrices()[0]
    for (a, b), vals in want_mean.items():
        if not close(mean[pos[labels[a]], pos[labels[b]]], float(np.mean(vals)), 1e-12, 1e-12):
            ctx.fail('partials_alignment', dict(sig, where='mean'), f'mean at ({labels[a]},{labels[b]}) is '
                     f'{mean[pos[labels[a]], pos[labels[b]]]!r}, the partial RDMs holding that pair average to '
                     f'{float(np.mean(vals))!r}', wit())
            return


def run_rescale(ctx):
    rng = ctx.rng
    n_cond = int(rng.integers(4, 8))
    n_rdm = int(rng.integers(2, 6))
    base = gen.rdm_vectors(rng, 1, n_cond, 'pos')[0]
    scales = rng.uniform(0.2, 5, size=n_rdm)
    proportional = bool(rng.integers(2))
    if proportional:
        v = np.array([s * base for s in scales])
    else:
        v = np.array([s * base * rng.uniform(0.8, 1.25, size=base.shape) for s in scales])
    a = v.copy()
    # partial RDMs: each misses the pairs of some conditions, but every pair is covered by >= 1 RDM
    iu = np.triu_indices(n_cond, 1)
    for i in range(1, n_rdm):
        gone = rng.choice(n_cond, size=int(rng.integers(0, max(1, n_cond - 3))), replace=False)
        a[i, np.isin(iu[0], gone) | np.isin(iu[1], gone)] = np.nan
    chain = bool(rng.integers(4) == 0)
    if chain:
        # a long chain of small partial RDMs (three conditions each, one pair shared with the next) on scales a factor
        # ten apart: the common scale has to travel along the whole chain, the slowest case for the iteration
        n_rdm = int(rng.integers(6, 11))
        n_cond = n_rdm + 2
        iu = np.triu_indices(n_cond, 1)
        base = gen.rdm_vectors(rng, 1, n_cond, 'pos')[0]
        a = np.full((n_rdm, base.size), np.nan)
        for i in range(n_rdm):
            cov = np.isin(iu[0], [i, i + 1, i + 2]) & np.isin(iu[1], [i, i + 1, i + 2])
            a[i, cov] = base[cov] * 10.0 ** i
        proportional = True
    if not chain and rng.integers(5) == 0:
        # complete RDMs of whole-number dissimilarities (ratings) stored in an integer array: rescaling still multiplies
        # each RDM by one positive constant
        a = np.round(v * 100).astype(np.int64) + 1
        proportional = False
    # overlap graph must be connected through the first (complete) RDM; each partial RDM needs >= 2 entries
    if any((~np.isnan(r)).sum() < 2 for r in a):
        ctx.count('rejected_degenerate')
        return
    method = gen.pick(rng, ['evidence', 'setsize', 'simple'])
    rd = RDMs(a.copy(), rdm_descriptors={'subj': [f's{i}' for i in range(n_rdm)]},
              pattern_descriptors={'cond': [f'c{i}' for i in range(n_cond)]})
    sig = dict(method=method, proportional=proportional, chain=chain)
    wit = lambda **k: dict(a=a, method=method, **k)  # noqa: E731
    ok, out = ctx.guarded('rescale', sig, rescale, rd, method, data=wit)
    if not ok:
        return
    ctx.case('rescale', sig, sample={'method': method, 'n_rdm': n_rdm, 'proportional': proportional})
    got = out.dissimilarities
    if got.shape != a.shape or not np.array_equal(np.isnan(got), np.isnan(a)):
        ctx.fail('rescale', sig, 'NaN pattern changed', wit(got=got))
        return
    for i in range(n_rdm):
        fin = ~np.isnan(a[i])
        ratio = got[i, fin] / a[i, fin]
        if np.any(ratio <= 0) or not close(ratio, np.full(ratio.shape, ratio[0]), 1e-8, 0):
            ctx.fail('rescale', sig, f'RDM {i} was not multiplied by one positive constant: ratios '
                     f'{ratio.tolist()}', wit(got=got))
            return
    if 'rescalingWeights' not in out.rdm_descriptors:
        ctx.fail('rescale', dict(sig, aspect='weights_descriptor'), 'rescalingWeights rdm descriptor missing', wit())
    if list(out.rdm_descriptors.get('subj', [])) != [f's{i}' for i in range(n_rdm)]:
        ctx.fail('rescale', dict(sig, aspect='descriptors'), 'rdm descriptors lost', wit())
    if proportional:
        # mutually proportional partial RDMs coincide on common pairs afterwards.  rescale iterates until the squared
        # change between iterations is below `threshold` (default 1e-8); the distance to the fixed point is then up
        # to ~50 * sqrt(threshold) (measured: 5.5e-3 at the default, 5e-11 at 1e-24), so this clause is decided with a
        # tight threshold where the remaining error is far below the tolerance
        ok2, out2 = ctx.guarded('rescale', sig, rescale, rd, method, threshold=1e-20, data=wit)
        if not ok2:
            return
        got = out2.dissimilarities
        for i in range(n_rdm):
            for j in range(i + 1, n_rdm):
                both = ~np.isnan(a[i]) & ~np.isnan(a[j])
                # relative comparison (all values are positive); the chain converges more slowly: measured mismatch
                # <= 1.3e-8 at threshold 1e-20, against 1e-2 ... 1 when the iteration is cut short
                if both.any() and np.max(np.abs(got[i, both] / got[j, both] - 1)) > (1e-5 if chain else 2e-6):
                    ctx.fail('rescale', sig, f'proportional partial RDMs {i},{j} not on a common scale after '
                             f'rescaling: maxdiff {maxdiff(got[i, both], got[j, both])}', wit(got=got))
                    return
    if not np.array_equal(rd.dissimilarities, a, equal_nan=True):
        ctx.fail('rescale', dict(sig, aspect='source_modified'), 'rescale modified its input', wit())


def run(ctx):
    n = ctx.n(240, 5000)
    for it in range(n):
        if ctx.out_of_time():
            ctx.notes.append(f'time budget reached after {it} rounds')
            break
        run_common(ctx, MEASURES[it % len(MEASURES)])
        if it % 2 == 0:
            run_differing(ctx)
        if it % 3 == 0:
            run_pool_and_ceiling(ctx)
            run_fit(ctx)
        if it % 2 == 1:
            run_mean(ctx)
        if it % 4 == 0:
            run_rescale(ctx)
        if it % 4 == 2:
            run_partials(ctx)
