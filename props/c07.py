"""C07  Upper noise ceiling is unbeatable; lower is leave-one-out and not above it.

Monitor: candidate-search monitor on boot_noise_ceiling / cv_noise_ceiling with an event trace of every
pool_rdm call made inside the noise-ceiling module (inputs identified by RDM uids).
Oracle: no candidate RDM beats the upper bound and the pooled RDM attains it; the lower bound is recomputed
leave-one-group-out from the traced predictions with reference measures, and a perturbation of the
left-out group must leave its prediction bit-identical; lower <= upper; rescaling / affine invariance.
"""
import copy

import numpy as np
import scipy.stats

import rsatoolbox.inference.noise_ceiling as NC
from rsatoolbox.inference import boot_noise_ceiling, cv_noise_ceiling
from rsatoolbox.inference import crossvalsets as CS
from rsatoolbox.rdm import RDMs
from rsatoolbox.util.inference_util import pool_rdm
from vlib import gen, ref
from vlib.core import close
from vlib.monitor import Trace, patched

LEVEL = 'exploration'
LEVEL_TEXT = ('Seeded exploration of the real noise-ceiling routines: the reported upper bound is challenged by '
              'a candidate search (pooled RDM, data RDMs, random RDMs, multi-scale perturbations of the pooled '
              'RDM), the lower bound is recomputed from the traced leave-one-group-out predictions and the '
              'left-out group is perturbed to show it cannot influence its own prediction. Held on the K '
              'executions observed; optimality is refuted only by a candidate the search proposes.')
LEVEL_NOTE = ('Candidates are scored with vlib.ref measure definitions (C03 ties compare() to them). Whitened '
              'ordering is checked with sigma_k = None (the routines take no sigma_k). A ceiling that is '
              'sub-optimal by less than 1e-10 is indistinguishable from a correct one.')
DESIGN_REF = 'DESIGN.md section 4 / C07'
TECHNIQUE = 'candidate-search monitor + traced leave-one-out recomputation + perturbation of the left-out group'
RULE = ('seeded generator over {method x grouping (singleton/pairs/few) x value class (positive/ties/euclidean) x '
        'common NaN yes/no x n_rdm 2..7 x n_cond 4..8}; non-trivial: >=2 RDM groups and non-constant RDMs; '
        'distinct = configuration signature')
ASSUMPTIONS = ['constant RDMs excluded', 'optimality only for cosine, corr, rho-a with singleton groups (as stated)',
               'ordering lower<=upper for cosine, corr, cosine_cov, corr_cov with singleton groups']
REQUIRED = ['check:upper_unbeatable', 'check:pooled_attains_upper', 'check:lower_is_leave_one_out',
            'check:left_out_group_has_no_influence', 'check:lower_le_upper', 'check:invariance',
            'check:cv_ceiling', 'check:cv_ceiling_pattern_only', 'check:ceiling_leaves_data_unchanged',
            'check:default_grouping',
            'check:common_nan_ignored', 'candidates_scored', 'pool_calls_traced']
REACH = ['boot_noise_ceiling', 'cv_noise_ceiling', 'pool_rdm', 'sets_leave_one_out_rdm', '_nan_mean',
         '_nan_rank_data']
FAIL_KEYS = ['method', 'grouping', 'what']
TIME_BUDGET = {'quick': 80, 'thorough': 800}


def score_fn(method):
    if method == 'cosine':
        return lambda c, d: float(np.mean([ref.cosine(c, x) for x in d]))
    if method == 'corr':
        return lambda c, d: float(np.mean([ref.pearson(c, x) for x in d]))
    if method == 'rho-a':
        return lambda c, d: float(np.mean([ref.rho_a_closed(c, x) for x in d]))
    if method == 'spearman':
        return lambda c, d: float(np.mean([ref.spearman(c, x) for x in d]))
    if method == 'cosine_cov':
        return None
    raise ValueError(method)


class Degenerate(Exception):
    """the measure is undefined for this pair (zero-norm / constant vector after restriction to a fold)"""


def sim(method, x, y, n_cond):
    try:
        return _sim(method, x, y, n_cond)
    except ZeroDivisionError:
        raise Degenerate()


def _sim(method, x, y, n_cond):
    if method == 'cosine':
        return ref.cosine(x, y)
    if method == 'corr':
        return ref.pearson(x, y)
    if method == 'rho-a':
        return ref.rho_a_closed(x, y)
    if method == 'spearman':
        return ref.spearman(x, y)
    if method == 'tau-a':
        return ref.tau_a(x, y)
    v = ref.v_matrix(n_cond, None)
    if method == 'cosine_cov':
        return ref.whitened_cosine(x, y, v)
    if method == 'corr_cov':
        return ref.whitened_corr(x, y, v)
    raise ValueError(method)


def make_data(rng, method, grouping=None, nan=False):
    n_rdm = int(rng.integers(2, 8))
    n_cond = int(rng.integers(4, 9))
    kind = gen.pick(rng, ['pos', 'ties', 'eucl'])
    if method in ('rho-a', 'spearman') and rng.integers(3):
        kind = 'ties'   # tied dissimilarities are the hard case for the rank-based ceilings
    base = gen.rdm_vectors(rng, 1, n_cond, 'pos')[0]
    v = gen.rdm_vectors(rng, n_rdm, n_cond, kind)
    if rng.integers(2):
        shared = np.round(base * 2) if kind == 'ties' else base * float(rng.uniform(0.5, 3))
        v = v + shared  # shared structure
    grouping = grouping or gen.pick(rng, ['singleton', 'pairs', 'few'])
    g = gen.group_labels(rng, n_rdm, grouping)
    lk = gen.pick(rng, gen.LABEL_KINDS + ['floatts'])   # floatts: distinct float labels that are 'close' (time stamps)
    labs = gen.labels(rng, int(g.max()) + 1, lk)
    keep = np.ones(v.shape[1], bool)
    if nan:
        k = int(rng.integers(1, max(2, v.shape[1] // 3)))
        keep[rng.choice(v.shape[1], size=k, replace=False)] = False
    if any(np.ptp(r[keep]) < 1e-9 for r in v) or keep.sum() < 4:
        return None
    int_storage = kind == 'ties' and not nan and bool(rng.integers(2))   # ordinal data stored as integers
    return dict(v=v, n_rdm=n_rdm, n_cond=n_cond, kind=kind, grouping=grouping, grp=[labs[i] for i in g],
                lk=lk, keep=keep, method=method, int_storage=int_storage)


def build(case, v=None):
    v = case['v'] if v is None else v
    a = v.copy()
    a[:, ~case['keep']] = np.nan
    if case.get('int_storage') and case['keep'].all() and np.all(a == np.round(a)):
        # ratings on a short scale are stored in the narrowest type that holds them (uint8), others as int64
        a = a.astype(np.uint8 if a.min() >= 0 and a.max() <= 255 and case['n_rdm'] % 2 else np.int64)
    return gen.derived_cycle(RDMs(a, rdm_descriptors={'uid': list(range(case['n_rdm'])), 'grp': list(case['grp'])},
                                  pattern_descriptors={'cond': [f'c{i}' for i in range(case['n_cond'])]}),
                             ways=('fresh', 'copy', 'pickle', 'fresh', 'deepcopy'))


def run_boot(ctx, method):
    rng = ctx.rng
    optimal = method in ('cosine', 'corr', 'rho-a')
    case = make_data(rng, method, grouping='singleton' if rng.integers(3) else None, nan=bool(rng.integers(4) == 0))
    if case is None:
        ctx.count('rejected_degenerate')
        return
    keep, n_cond = case['keep'], case['n_cond']
    has_nan = not keep.all()
    if has_nan and method.endswith('_cov'):
        case['keep'] = keep = np.ones_like(keep)
        has_nan = False
    sig = dict(method=method, grouping=case['grouping'], values=case['kind'], labels=case['lk'], nan=has_nan)
    wit = lambda **k: dict(v=case['v'], grp=case['grp'], keep=keep, method=method, **k)  # noqa: E731
    by = 'grp' if case['grouping'] != 'singleton' or rng.integers(2) else 'index'
    rd = build(case)
    tr = Trace()
    with patched(NC, 'pool_rdm', lambda f: tr.wrap('pool_rdm', f)):
        ok, out = ctx.guarded('lower_is_leave_one_out', sig, boot_noise_ceiling, rd, method=method,
                              rdm_descriptor=by, data=wit)
    if not ok:
        return
    lower, upper = float(out[0]), float(out[1])
    # the ceilings of another method asked for afterwards on the *same* object are those of a pristine copy (the
    # data RDMs are not altered by computing a ceiling)
    ctx.case('ceiling_leaves_data_unchanged', sig)
    if not np.array_equal(rd.dissimilarities, build(case).dissimilarities, equal_nan=True):
        ctx.fail('ceiling_leaves_data_unchanged', dict(sig, what='data_modified'), f'boot_noise_ceiling(method={method!r}) '
                 f'altered the data RDMs it was given', wit())
        return
    # the default grouping is by the 'index' descriptor: copies of one RDM (a stack resampled with repetition keeps the
    # index values) form one group, so relying on the default equals naming 'index'
    sel = sorted(int(i) for i in rng.integers(0, case['n_rdm'], size=case['n_rdm']))
    if len(set(sel)) >= 2 and len(set(sel)) < len(sel):
        dup = build(case).subsample('index', sel)
        ok_d, by_default = ctx.guarded('default_grouping', sig, boot_noise_ceiling, dup, method=method, data=wit)
        ok_e, by_index = ctx.guarded('default_grouping', sig, boot_noise_ceiling, dup, method=method,
                                     rdm_descriptor='index', data=wit)
        # ... and the grouping is by the VALUES of that descriptor, whatever it is called: the same values under another
        # name give the same ceilings
        dup.rdm_descriptors['orig'] = [int(v) for v in dup.rdm_descriptors['index']]
        ok_o, by_other = ctx.guarded('default_grouping', sig, boot_noise_ceiling, dup, method=method,
                                     rdm_descriptor='orig', data=wit)
        if ok_e and ok_o and not close(np.array(by_index, dtype=float), np.array(by_other, dtype=float), 1e-12, 1e-14):
            ctx.fail('default_grouping', dict(sig, what='index_not_grouped_by_value'), f'ceilings grouped by index '
                     f'{tuple(map(float, by_index))} != ceilings grouped by a descriptor holding the same values '
                     f'{tuple(map(float, by_other))} (values {sel})', wit(selection=sel))
            return
        if ok_d and ok_e:
            ctx.case('default_grouping', sig)
            if not close(np.array(by_default, dtype=float), np.array(by_index, dtype=float), 1e-12, 1e-14):
                ctx.fail('default_grouping', dict(sig, what='default_not_index'), f'ceilings with the default grouping '
                         f'{tuple(map(float, by_default))} != ceilings grouped by index {tuple(map(float, by_index))} on a '
                         f'stack resampled with repetition (index values {sel})', wit(selection=sel))
    m2 = gen.pick(rng, [m for m in ('cosine', 'corr', 'rho-a') if m != method])
    ok_a, again = ctx.guarded('ceiling_leaves_data_unchanged', sig, boot_noise_ceiling, rd, method=m2, rdm_descriptor=by,
                              data=wit)
    ok_b, fresh = ctx.guarded('ceiling_leaves_data_unchanged', sig, boot_noise_ceiling, build(case), method=m2,
                              rdm_descriptor=by, data=wit)
    if ok_a and ok_b and not close(np.array(again, dtype=float), np.array(fresh, dtype=float), 1e-12, 1e-14):
        ctx.fail('ceiling_leaves_data_unchanged', dict(sig, what='history_dependent'), f'{m2} ceilings after a {method} '
                 f'ceiling on the same object {tuple(map(float, again))} != on a fresh object {tuple(map(float, fresh))}',
                 wit(second_method=m2))
        return
    # ... and after the user reordered the conditions of that same object in place, the ceilings of the SAME method are
    # those of the object as it is now (nothing remembered from the call above)
    rd2 = build(case)
    ctx.guarded('ceiling_leaves_data_unchanged', sig, boot_noise_ceiling, rd2, method=method, rdm_descriptor=by, data=wit)
    rd2.reorder(np.array([int(i) for i in rng.permutation(n_cond)]))
    fresh2 = RDMs(np.array(rd2.dissimilarities, copy=True),
                  rdm_descriptors={k: list(v) for k, v in rd2.rdm_descriptors.items()},
                  pattern_descriptors={k: list(v) for k, v in rd2.pattern_descriptors.items()})
    ok_c, after = ctx.guarded('ceiling_leaves_data_unchanged', sig, boot_noise_ceiling, rd2, method=method, rdm_descriptor=by,
                              data=wit)
    ok_d2, fresh_c = ctx.guarded('ceiling_leaves_data_unchanged', sig, boot_noise_ceiling, fresh2, method=method,
                                 rdm_descriptor=by, data=wit)
    if ok_c and ok_d2 and not close(np.array(after, dtype=float), np.array(fresh_c, dtype=float), 1e-12, 1e-14):
        ctx.fail('ceiling_leaves_data_unchanged', dict(sig, what='history_dependent'), f'{method} ceilings of an object whose '
                 f'conditions were reordered in place after an earlier {method} ceiling {tuple(map(float, after))} != on a '
                 f'freshly built object with the same content {tuple(map(float, fresh_c))}', wit(second_method=method))
        return
    pools = tr.returns('pool_rdm')
    ctx.count('pool_calls_traced', len(pools))
    d = case['v'][:, keep]
    groups = list(case['grp']) if by == 'grp' else list(range(case['n_rdm']))
    ug = []
    for gval in groups:
        if ref._key(gval) not in ug:
            ug.append(ref._key(gval))
    if len(ug) < 2:
        ctx.count('rejected_single_group')
        return
    # --- lower bound: traced predictions are computed without the left-out group, and reproduce `lower`
    ctx.case('lower_is_leave_one_out', sig, sample={'method': method, 'groups': list(map(str, groups)),
                                                    'lower': lower, 'upper': upper})
    fold_preds = {}
    for ev in pools[1:]:
        uids = [int(u) for u in ev['call']['args'][0].rdm_descriptors['uid']]
        left = [u for u in range(case['n_rdm']) if u not in uids]
        gl = set(ref._key(groups[u]) for u in left)
        inside = set(ref._key(groups[u]) for u in uids)
        if len(gl) != 1 or (gl & inside):
            ctx.fail('lower_is_leave_one_out', dict(sig, what='training_set'), f'a leave-one-out prediction was '
                     f'pooled from RDM uids {uids}; left out {left} is not exactly one whole group', wit())
            return
        fold_preds[gl.pop()] = (ev['out'].dissimilarities[0].copy(), left)
    if set(fold_preds) != set(ug):
        ctx.fail('lower_is_leave_one_out', dict(sig, what='folds'), f'groups left out {sorted(map(str, fold_preds))} '
                 f'!= all groups {sorted(map(str, ug))}', wit())
        return
    lows = []
    for gval, (pred, left) in fold_preds.items():
        lows.append(np.mean([sim(method, pred[keep], d[u], n_cond) for u in left]))
    tol = 5e-4 if method.endswith('_cov') else 1e-9
    if not close(lower, float(np.mean(lows)), tol, tol):
        ctx.fail('lower_is_leave_one_out', dict(sig, what='value'), f'lower bound {lower!r} != mean over left-out '
                 f'groups of similarity(prediction without the group, group) = {float(np.mean(lows))!r}', wit())
    # --- upper = mean similarity of the pooled RDM of all data
    pooled_all = pools[0]['out'].dissimilarities[0]
    up_ref = float(np.mean([np.mean([sim(method, pooled_all[keep], d[u], n_cond) for u in left])
                            for (_, left) in fold_preds.values()]))
    if not close(upper, up_ref, tol, tol):
        ctx.fail('pooled_attains_upper', dict(sig, what='upper_value'), f'upper bound {upper!r} is not the '
                 f'(group-averaged) similarity of the pooled RDM {up_ref!r}', wit())
    # --- perturbation: change only the left-out group's RDMs -> its prediction must be bit-identical
    gpick = ug[int(rng.integers(len(ug)))]
    v2 = case['v'].copy()
    for u in range(case['n_rdm']):
        if ref._key(groups[u]) == gpick:
            v2[u] = gen.rdm_vectors(rng, 1, n_cond, 'pos')[0] * 3
    tr2 = Trace()
    with patched(NC, 'pool_rdm', lambda f: tr2.wrap('pool_rdm', f)):
        ok2, _ = ctx.guarded('left_out_group_has_no_influence', sig, boot_noise_ceiling, build(case, v2),
                             method=method, rdm_descriptor=by, data=wit)
    if ok2:
        ctx.case('left_out_group_has_no_influence', sig)
        found = False
        for ev in tr2.returns('pool_rdm')[1:]:
            uids = [int(u) for u in ev['call']['args'][0].rdm_descriptors['uid']]
            left = [u for u in range(case['n_rdm']) if u not in uids]
            if left and ref._key(groups[left[0]]) == gpick:
                found = True
                if not np.array_equal(ev['out'].dissimilarities[0], fold_preds[gpick][0], equal_nan=True):
                    ctx.fail('left_out_group_has_no_influence', sig, f'prediction for left-out group {gpick!r} '
                             f'changed when only that group\'s RDMs were altered', wit(v2=v2))
        if not found:
            ctx.fail('left_out_group_has_no_influence', dict(sig, what='no_fold'), 'no fold left that group out', wit())
    singleton = len(ug) == case['n_rdm']
    # --- ordering
    if singleton and method in ('cosine', 'corr', 'cosine_cov', 'corr_cov'):
        ctx.case('lower_le_upper', sig)
        if lower > upper + 1e-10 + (5e-4 if method.endswith('_cov') else 0):
            ctx.fail('lower_le_upper', sig, f'lower {lower!r} > upper {upper!r}', wit())
    # --- optimality of the upper bound
    if singleton and optimal:
        sc = score_fn(method)
        ctx.case('pooled_attains_upper', sig)
        pl = pool_rdm(rd, method=method).dissimilarities[0][keep]
        sp = sc(pl, d)
        if not close(sp, upper, 1e-10, 1e-11):
            ctx.fail('pooled_attains_upper', sig, f'pooled RDM scores {sp!r}, reported upper bound {upper!r}', wit())
        ctx.case('upper_unbeatable', sig)
        cands = [('data', x) for x in d]
        cands += [('mean', d.mean(axis=0)), ('median', np.median(d, axis=0))]
        n_rand = ctx.n(60, 200)
        for _ in range(n_rand):
            cands.append(('random', gen.rdm_vectors(rng, 1, n_cond, gen.pick(rng, ['pos', 'neg', 'ties']))[0][keep]))
        for scale in (1e-1, 1e-2, 1e-3, 1e-4):
            for _ in range(ctx.n(12, 40)):
                cands.append((f'perturb{scale}', pl + scale * np.std(pl) * rng.standard_normal(pl.shape)))
        if method == 'rho-a':
            mr = np.mean([scipy.stats.rankdata(x) for x in d], axis=0)
            for _ in range(20):   # monotone re-orderings / tie breakings of the mean ranks
                cands.append(('tiebreak', mr + 1e-6 * rng.standard_normal(mr.shape)))
                cands.append(('monotone', np.exp(mr / len(mr))))
        best = (-np.inf, None)
        for name, c in cands:
            if np.ptp(c) < 1e-12:
                continue
            s = sc(c, d)
            ctx.count('candidates_scored')
            if s > best[0]:
                best = (s, name)
            if s > upper + 1e-10:
                ctx.fail('upper_unbeatable', sig, f'candidate ({name}) scores {s!r} > reported upper bound {upper!r}',
                         wit(candidate=c, kind=name))
                break
    # --- invariance: rescaling individual data RDMs (cosine) / shifting and rescaling (corr)
    if method in ('cosine', 'corr', 'cosine_cov', 'corr_cov'):
        scales = rng.uniform(0.1, 10, size=(case['n_rdm'], 1))
        if rng.integers(2):
            # some subjects' RDMs recorded in other physical units (1e-10 ... 1e6): still a positive rescaling
            scales = scales * 10.0 ** rng.choice([-10, -6, -3, 0, 0, 3, 6], size=(case['n_rdm'], 1))
        shifts = rng.uniform(-2, 2, size=(case['n_rdm'], 1)) * scales if method.startswith('corr') else 0.0
        v3 = case['v'] * scales + shifts
        ok3, out3 = ctx.guarded('invariance', sig, boot_noise_ceiling, build(case, v3), method=method,
                                rdm_descriptor=by, data=wit)
        if ok3:
            ctx.case('invariance', sig)
            t3 = 1e-3 if method.endswith('_cov') else 1e-8
            if not close(np.array(out3, dtype=float), np.array([lower, upper]), t3, t3):
                ctx.fail('invariance', sig, f'ceilings changed from {(lower, upper)} to {tuple(map(float, out3))} '
                         f'under per-RDM {"affine maps" if method.startswith("corr") else "rescaling"}', wit(v3=v3))
    # --- common NaN entries are ignored: equals the computation with those entries carrying other values
    if has_nan and not method.endswith('_cov'):
        ctx.case('common_nan_ignored', sig)
        v4 = case['v'].copy()
        v4[:, ~keep] = rng.uniform(0.1, 5, size=(case['n_rdm'], int((~keep).sum())))
        out4 = boot_noise_ceiling(build(case, v4), method=method, rdm_descriptor=by)
        if not close(np.array(out4, dtype=float), np.array([lower, upper]), 0, 0):
            ctx.fail('common_nan_ignored', sig, 'values hidden behind common NaNs influence the ceilings', wit())
    elif not method.endswith('_cov'):
        ctx.count('no_nan_case')


def run_cv(ctx, method):
    """cross-validated ceiling: lower from ceil_set (training RDMs at the test conditions)"""
    rng = ctx.rng
    case = make_data(rng, method, grouping=gen.pick(rng, ['singleton', 'pairs']))
    if case is None or case['n_rdm'] < 3:
        ctx.count('rejected_degenerate')
        return
    n_cond = max(case['n_cond'], 6)
    case['n_cond'] = n_cond
    case['v'] = gen.rdm_vectors(rng, case['n_rdm'], n_cond, 'pos')
    case['keep'] = np.ones(case['v'].shape[1], bool)
    rd = RDMs(case['v'].copy(), rdm_descriptors={'uid': list(range(case['n_rdm'])), 'grp': list(case['grp'])},
              pattern_descriptors={'puid': list(range(n_cond))})
    n_g = len(set(map(str, case['grp'])))
    k_r = int(rng.integers(2, min(3, n_g) + 1)) if n_g >= 2 else 1
    k_p = int(rng.integers(1, 3))
    if k_r == 1 and k_p == 1:
        k_p = 2
    np.random.seed(int(rng.integers(2 ** 31)))
    sig = dict(method=method, grouping=case['grouping'], k=f'{k_r}x{k_p}')
    wit = lambda **k: dict(v=case['v'], grp=case['grp'], k_rdm=k_r, k_pattern=k_p, method=method, **k)  # noqa
    try:
        train_set, test_set, ceil_set = CS.sets_k_fold(rd, k_rdm=k_r, k_pattern=k_p, random=True,
                                                        pattern_descriptor='puid', rdm_descriptor='grp')
    except Exception as exc:
        ctx.fail('cv_ceiling', dict(sig, exception=type(exc).__name__), repr(exc), wit())
        return
    if any(t[0].n_cond < 3 for t in test_set):
        ctx.count('rejected_small_test_set')
        return
    tr = Trace()
    with patched(NC, 'pool_rdm', lambda f: tr.wrap('pool_rdm', f)):
        ok, out = ctx.guarded('cv_ceiling', sig, cv_noise_ceiling, rd, ceil_set, test_set, method=method,
                              pattern_descriptor='puid', data=wit)
    if not ok:
        return
    ctx.case('cv_ceiling', sig, sample={'k_rdm': k_r, 'k_pattern': k_p, 'method': method})
    ctx.count('pool_calls_traced', len(tr.returns('pool_rdm')))
    iu = np.triu_indices(n_cond, 1)

    def restrict(vec, conds):
        m = ref.square(vec, n_cond)
        sub = m[np.ix_(conds, conds)]
        return sub[np.triu_indices(len(conds), 1)]
    lows, ups = [], []
    pooled_all = pool_rdm(rd, method=method).dissimilarities[0]
    for i, test in enumerate(test_set):
        conds = [int(c) for c in test[0].pattern_descriptors['puid']]
        te_u = [int(u) for u in test[0].rdm_descriptors['uid']]
        ce_u = [int(u) for u in ceil_set[i][0].rdm_descriptors['uid']]
        tr_u = [int(u) for u in train_set[i][0].rdm_descriptors['uid']]
        if sorted(ce_u) != sorted(tr_u):
            ctx.fail('cv_ceiling', dict(sig, what='ceil_set'), 'ceil set RDMs are not the training RDMs', wit(fold=i))
            return
        if k_r > 1 and set(ce_u) & set(te_u):
            ctx.fail('cv_ceiling', dict(sig, what='ceil_contains_test'), 'ceil set contains test RDMs', wit(fold=i))
            return
        # pooled prediction of the training RDMs restricted to the test conditions
        ce_full = case['v'][ce_u]
        pred_tr = pool_rdm(RDMs(np.array([restrict(x, conds) for x in ce_full])), method=method).dissimilarities[0]
        lows.append(np.mean([sim(method, pred_tr, restrict(case['v'][u], conds), len(conds)) for u in te_u]))
        ups.append(np.mean([sim(method, restrict(pooled_all, conds), restrict(case['v'][u], conds), len(conds))
                            for u in te_u]))
    want = np.array([np.mean(lows), np.mean(ups)])
    tol = 5e-4 if method.endswith('_cov') else 1e-9
    if not close(np.array(out, dtype=float), want, tol, tol):
        ctx.fail('cv_ceiling', dict(sig, what='value'), f'cv ceilings {tuple(map(float, out))} != recomputed from the '
                 f'training RDMs at the test conditions {tuple(want)}', wit())


def run_cv_pattern_only(ctx, method):
    """cross-validation over conditions only (ceil_set is None): crossval computes, per fold, a leave-one-RDM-out
    ceiling that must be the one of the data restricted to that fold's *test* conditions"""
    from rsatoolbox.inference import crossval
    from rsatoolbox.inference.crossvalsets import sets_k_fold_pattern
    from rsatoolbox.model import ModelFixed
    rng = ctx.rng
    n_rdm, n_cond = int(rng.integers(3, 6)), int(rng.integers(9, 13))
    v = gen.rdm_vectors(rng, n_rdm, n_cond, 'pos')
    rd = RDMs(v.copy(), rdm_descriptors={'uid': list(range(n_rdm))}, pattern_descriptors={'puid': list(range(n_cond))})
    k = int(rng.integers(2, 4))
    sig = dict(method=method, k_pattern=k, grouping='pattern_only')
    wit = lambda **x: dict(v=v, method=method, k=k, **x)  # noqa: E731
    np.random.seed(int(rng.integers(2 ** 31)))
    train_set, test_set, ceil_set = sets_k_fold_pattern(rd, 'puid', k=k, random=bool(rng.integers(2)))
    if ceil_set is not None:
        ctx.count('rejected_ceil_set_given')
        return
    model = ModelFixed('m', RDMs(gen.rdm_vectors(rng, 1, n_cond, 'pos'), pattern_descriptors={'puid': list(range(n_cond))}))
    ok, res = ctx.guarded('cv_ceiling_pattern_only', sig, crossval, [model], rd, train_set, test_set, ceil_set=None,
                          method=method, pattern_descriptor='puid', data=wit)
    if not ok:
        return
    ctx.case('cv_ceiling_pattern_only', sig)
    nc = np.asarray(res.noise_ceiling, dtype=float)
    if nc.shape != (2, len(test_set)):
        ctx.fail('cv_ceiling_pattern_only', dict(sig, what='shape'), f'noise ceiling shape {nc.shape} for '
                 f'{len(test_set)} folds', wit())
        return
    iu = np.triu_indices(n_cond, 1)
    for i, test in enumerate(test_set):
        conds = sorted(int(c) for c in test[1])
        cols = [j for j, (a, b) in enumerate(zip(iu[0], iu[1])) if a in conds and b in conds]
        sub = RDMs(v[:, cols].copy())
        want = np.array(boot_noise_ceiling(sub, method=method), dtype=float)
        if not close(nc[:, i], want, 1e-9, 1e-12):
            ctx.fail('cv_ceiling_pattern_only', dict(sig, what='value'), f'fold {i}: ceilings {nc[:, i].tolist()} are not '
                     f'those of the data at the test conditions {conds}: {want.tolist()}', wit(fold=i))
            return


METHODS = ['cosine', 'corr', 'rho-a', 'cosine_cov', 'corr_cov', 'spearman']


def run(ctx):
    n = ctx.n(180, 1500)
    for it in range(n):
        if ctx.out_of_time():
            ctx.notes.append(f'time budget reached after {it} rounds')
            break
        m = METHODS[it % len(METHODS)]
        try:
            run_boot(ctx, m)
            if it % 3 == 0:
                run_cv(ctx, gen.pick(ctx.rng, ['cosine', 'corr', 'rho-a']))
            if it % 3 == 1:
                run_cv_pattern_only(ctx, gen.pick(ctx.rng, ['cosine', 'corr', 'rho-a']))
        except Degenerate:
            ctx.count('degenerate_skipped')
