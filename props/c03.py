"""C03  RDM comparison measures equal their definitions for every pair of RDMs.

Monitor: result monitor on rsatoolbox.rdm.compare (all measures named by the property).
Oracle: brute-force definitions per (i, j) pair (vlib.ref), dense V^-1 for whitened measures,
exhaustive tie-breaking enumeration for rho-a, scipy sqrtm for Bures; universal observers
(symmetry, self, range, simultaneous condition permutation, ndarray vs RDMs, (i,j) pairing).
"""
import numpy as np
import scipy.linalg

from rsatoolbox.rdm import RDMs, compare
from vlib import gen, ref
from vlib.core import close, maxdiff

LEVEL = 'exploration'
LEVEL_TEXT = ('Seeded exploration of the real compare() under a result monitor: every entry of the returned '
              'matrix is compared with an independent brute-force definition of the measure for that pair '
              'of RDMs; symmetry, self-similarity, range, permutation-invariance and array/RDMs agreement '
              'are asserted on the same cases. Held on the K executions observed.')
LEVEL_NOTE = ('Trusted: scipy.stats.rankdata/kendalltau, numpy.linalg.solve, scipy.linalg.sqrtm in the '
              'reference. Whitened measures compared at 5e-4 (the library solves with conjugate gradients at '
              'rtol 1e-5), Bures at 1e-6, all others at 1e-9. Degenerate inputs (constant RDMs for '
              'correlation-type measures, zero RDMs) excluded.')
DESIGN_REF = 'DESIGN.md section 4 / C03'
TECHNIQUE = 'runtime result monitor vs brute-force measure definitions + metamorphic observers'
RULE = ('seeded generator over {measure x sigma_k class x value class (positive/ties/negative/euclidean) x '
        'stack sizes (1..4, unequal) x n_cond 3..7 x input type}; non-trivial: non-constant vectors; '
        'distinct = configuration signature')
ASSUMPTIONS = ['constant / all-zero RDM vectors excluded (measure undefined)',
               'sigma_k SPD with condition number <= 30', 'Bures only on Euclidean-embeddable RDMs',
               'self-similarity = 1 asserted for tau-a / rho-a only on tie-free RDMs (with ties their '
               'definition gives < 1)']
MEASURES = ['cosine', 'corr', 'spearman', 'kendall', 'tau-b', 'tau-a', 'rho-a', 'cosine_cov', 'corr_cov',
            'bures', 'bures_metric']
REQUIRED = ['check:definition:' + m for m in MEASURES] + \
           ['check:symmetry', 'check:self', 'check:range', 'check:cond_permutation', 'check:input_type', 'check:repeat_same_objects', 'check:definition_beside_degenerate',
            'rho_a_enumerated', 'tau_a_tie_cases']
REACH = ['compare', 'compare_cosine', 'compare_correlation', 'compare_spearman', 'compare_kendall_tau',
         'compare_kendall_tau_a', 'compare_rho_a', 'compare_correlation_cov_weighted',
         'compare_cosine_cov_weighted', '_cosine_cov_weighted', '_cov_weighting',
         '_cosine_cov_weighted_slow', '_tau_a', '_bures_similarity_first_way',
         '_sq_bures_metric_first_way', '_get_v']
FAIL_KEYS = ['measure', 'sigma', 'ties', 'prev', 'degenerate_member']
TIME_BUDGET = {'quick': 70, 'thorough': 700}


def tol_of(measure, sigma):
    if measure in ('cosine_cov', 'corr_cov'):
        return (5e-4, 5e-5) if sigma != 'none' else (1e-8, 1e-9)
    if measure in ('bures', 'bures_metric'):
        return (1e-6, 1e-6)
    return (1e-9, 1e-10)


def bures_ref(x, y, n, metric):
    def kern(v):
        d = ref.square(v, n)
        h = np.eye(n) - np.ones((n, n)) / n
        return -0.5 * h @ d @ h
    a, b = kern(x), kern(y)
    sa = np.real(scipy.linalg.sqrtm(a))
    mid = np.real(scipy.linalg.sqrtm(sa @ b @ sa))
    fid = float(np.trace(mid))
    if metric:
        return float(np.trace(a) + np.trace(b) - 2 * fid)
    return fid / np.sqrt(float(np.trace(a)) * float(np.trace(b)))


def ref_value(measure, x, y, n_cond, sigma_k, ctx=None):
    if measure == 'cosine':
        return ref.cosine(x, y)
    if measure == 'corr':
        return ref.pearson(x, y)
    if measure == 'spearman':
        return ref.spearman(x, y)
    if measure in ('kendall', 'tau-b'):
        return ref.tau_b(x, y)
    if measure == 'tau-a':
        return ref.tau_a(x, y)
    if measure == 'rho-a':
        if ref.n_tie_breakings(x) * ref.n_tie_breakings(y) <= 3000 and len(x) <= 10:
            if ctx is not None:
                ctx.count('rho_a_enumerated')
            return ref.rho_a_enum(x, y)
        return ref.rho_a_closed(x, y)
    if measure == 'cosine_cov':
        return ref.whitened_cosine(x, y, ref.v_matrix(n_cond, sigma_k))
    if measure == 'corr_cov':
        return ref.whitened_corr(x, y, ref.v_matrix(n_cond, sigma_k))
    if measure == 'bures':
        return bures_ref(x, y, n_cond, False)
    if measure == 'bures_metric':
        return bures_ref(x, y, n_cond, True)
    raise ValueError(measure)


def permute_vec(v, n, perm):
    m = ref.square(v, n)
    m = m[np.ix_(perm, perm)]
    return m[np.triu_indices(n, 1)]


def make_case(rng, measure):
    n_cond = int(rng.integers(3, 8))
    n1, n2 = int(rng.integers(1, 5)), int(rng.integers(1, 5))
    if rng.integers(3) == 0:
        n1, n2 = gen.pick(rng, [(2, 3), (1, 4), (3, 1), (4, 2)])
    if measure in ('bures', 'bures_metric'):
        kind = 'eucl'
    elif measure in ('tau-a', 'rho-a', 'kendall', 'tau-b', 'spearman') and rng.integers(5) < 3:
        kind = 'ties'   # joint ties in both stacks are the hard case for the rank measures
    else:
        kind = gen.pick(rng, ['pos', 'ties', 'neg', 'eucl'])
    v1 = gen.rdm_vectors(rng, n1, n_cond, kind)
    if measure in ('bures', 'bures_metric'):
        kind2 = 'eucl'
    elif kind == 'ties' and rng.integers(4) < 3:
        kind2 = 'ties'
    else:
        kind2 = gen.pick(rng, ['pos', 'ties', 'neg', 'eucl'])
    v2 = gen.rdm_vectors(rng, n2, n_cond, kind2)
    ustore = False
    if kind == 'eucl' and kind2 == 'eucl' and rng.integers(3) == 0:
        # squared distances of points with whole-number coordinates (embeddable, whole numbers): stored as unsigned ints
        def int_eucl(n):
            out = []
            for _ in range(n):
                pts = rng.integers(-3, 4, size=(n_cond, n_cond))
                d = ((pts[:, None, :] - pts[None, :, :]) ** 2).sum(-1)
                out.append(d[np.triu_indices(n_cond, 1)])
            return np.array(out, dtype=float)
        v1, v2, ustore = int_eucl(n1), int_eucl(n2), True
    if kind == 'ties' and kind2 == 'ties' and rng.integers(2):
        # ordinal judgements stored as integers: the measure of the same numbers must not depend on their dtype
        v1, v2 = v1.astype(np.int64), v2.astype(np.int64)
    if measure in ('cosine_cov', 'corr_cov'):
        sk = gen.pick(rng, ['none', 'vector', 'matrix', 'const_vector'])
    else:
        sk = 'none'
    if sk == 'vector':
        sigma = rng.uniform(0.5, 3.0, size=n_cond)
    elif sk == 'const_vector':
        sigma = np.ones(n_cond) * float(rng.uniform(0.5, 2))
    elif sk == 'matrix':
        sigma = gen.spd(rng, n_cond, 30.0)
    else:
        sigma = None
    if sigma is not None:
        # overall magnitude of the noise covariance (physical units): the whitened measures do not depend on it
        # (small units are where absolute tolerances in shortcuts bite, so they get a third of the matrix cases)
        expo = [-12, -11, -10, -9, -4, 0, 0, 3, 6] if sk == 'matrix' else [-12, -9, -4, 0, 0, 0, 3, 6]
        sigma = sigma * 10.0 ** float(gen.pick(rng, expo))
    return dict(measure=measure, n_cond=n_cond, v1=v1, v2=v2, kind=kind, kind2=kind2, sk=sk, sigma=sigma, ustore=ustore)


def degenerate(case):
    for v in list(case['v1']) + list(case['v2']):
        if np.ptp(v) < 1e-9 or np.all(np.abs(v) < 1e-12):
            return True
    return False


def has_ties(v):
    return len(np.unique(v)) < len(v)


def run_case(ctx, case):
    rng = ctx.rng
    m, n = case['measure'], case['n_cond']
    v1, v2, sigma = case['v1'], case['v2'], case['sigma']
    ties = bool(any(has_ties(v) for v in v1) or any(has_ties(v) for v in v2))
    sig = dict(measure=m, sigma=case['sk'], values=case['kind'], ties=ties,
               shape=f'{v1.shape[0]}x{v2.shape[0]}', n_cond=n)
    rt, at = tol_of(m, case['sk'])
    if m.startswith('bures'):
        # the matrix square roots lose absolute accuracy in proportion to the magnitude of the kernels
        at = at * max(1.0, float(np.abs(v1).max()), float(np.abs(v2).max()))
    as_rdms = bool(rng.integers(2))
    st = (lambda v: v.astype(np.uint16)) if case.get('ustore') else (lambda v: v.copy())
    a = RDMs(st(v1)) if as_rdms else st(v1)
    b = RDMs(st(v2)) if as_rdms else st(v2)
    if as_rdms:    # ... which may be copies / unpickled / rebuilt from their dict form
        a, b = gen.derived(rng, a)[0], gen.derived(rng, b)[0]
    # half of the covariance arguments arrive in a preallocated buffer that is overwritten from case to case (same
    # object, new values), the other half as fresh arrays
    how = int(rng.integers(3))     # ... or as a Fortran-ordered array; whichever way, the caller's array stays as it was
    kw = {'sigma_k': None if sigma is None else (gen.reused_buffer(sigma) if how == 0 else
                                                 np.asfortranarray(sigma) if how == 1 else sigma.copy())} \
        if m in ('cosine_cov', 'corr_cov') else {}
    wit = lambda **x: dict(measure=m, v1=v1, v2=v2, sigma_k=sigma, n_cond=n, **x)  # noqa: E731
    ok, got = ctx.guarded('definition:' + m, sig, compare, a, b, method=m, data=wit, **kw)
    if not ok:
        return
    got = np.asarray(got)
    if kw.get('sigma_k') is not None and not np.array_equal(np.asarray(kw['sigma_k']), sigma):
        ctx.fail('definition:' + m, dict(sig, what='sigma_k_modified'), f'compare(..., {m!r}) altered the sigma_k array it '
                 f'was given', wit())
        return
    ctx.case('definition:' + m, sig, sample={'measure': m, 'v1': v1[:1], 'v2': v2[:1], 'sigma_k': case['sk']})
    if m == 'tau-a' and ties:
        ctx.count('tau_a_tie_cases')
    if got.shape != (v1.shape[0], v2.shape[0]):
        ctx.fail('definition:' + m, sig, f'shape {got.shape} for stacks {v1.shape[0]} x {v2.shape[0]}', wit())
        return
    want = np.array([[ref_value(m, x, y, n, sigma, ctx) for y in v2] for x in v1])
    if not close(got, want, rt, at):
        ctx.fail('definition:' + m, sig, f'max |got-want| = {maxdiff(got, want)}; got {got.tolist()} '
                 f'want {want.tolist()}', wit(got=got, want=want))
        return
    # range
    if m != 'bures_metric':
        ctx.case('range', sig)
        # (the matrix square roots of the Bures similarity are accurate to ~1e-8 only: a self-similarity of
        # 1 + 7e-9 was seen on the unchanged tree, with the reference agreeing to 1e-10)
        rtol = max(1e-9, at) if m.startswith('bures') else 1e-9
        if np.any(got > 1 + rtol) or np.any(got < -1 - rtol):
            ctx.fail('range', sig, f'value outside [-1,1]: {got.tolist()}', wit())
    # symmetry
    ok, got_t = ctx.guarded('symmetry', sig, compare, b, a, method=m, data=wit, **kw)
    if ok:
        ctx.case('symmetry', sig)
        if not close(np.asarray(got_t), got.T, rt, at):
            ctx.fail('symmetry', sig, f'compare(b,a) != compare(a,b).T: {maxdiff(got_t, got.T)}', wit())
    # self
    ok, gs = ctx.guarded('self', sig, compare, a, a, method=m, data=wit, **kw)
    if ok:
        gs = np.asarray(gs)
        # the same object passed twice is an ordinary pair of arguments: every entry (the diagonal of a tied RDM under
        # tau-a / rho-a included, which is below 1) equals the definition
        ctx.case('self', dict(sig, whole_matrix=True))
        want_s = np.array([[ref_value(m, x, y, n, sigma, ctx) for y in v1] for x in v1])
        if gs.shape != want_s.shape or not close(gs, want_s, rt, at):
            ctx.fail('self', dict(sig, what='same_object_twice'), f'compare(a, a, {m!r}) differs from the definition '
                     f'by {maxdiff(gs, want_s) if gs.shape == want_s.shape else gs.shape}; got {gs.tolist()} want '
                     f'{want_s.tolist()}', wit())
            return
        for i in range(v1.shape[0]):
            if m in ('tau-a', 'rho-a') and has_ties(v1[i]):
                continue
            ctx.case('self', sig)
            target = 0.0 if m == 'bures_metric' else 1.0
            tol = 1e-6 * max(1.0, float(np.abs(v1[i]).sum())) if m.startswith('bures') else max(rt, 1e-9)
            if abs(gs[i, i] - target) > tol * 10:
                ctx.fail('self', sig, f'self-similarity of RDM {i} is {gs[i, i]!r}, expected {target}', wit(i=i))
    # history independence: other measures on the *same* objects still equal their definition on
    # the original values, and the objects' arrays are unchanged
    others = [x for x in MEASURES if x != m and (case['kind'] == 'eucl' and
                                                  np.all(v2 >= 0) or not x.startswith('bures'))]
    for m2 in [others[int(i)] for i in rng.choice(len(others), size=2, replace=False)]:
        if m2.startswith('bures') and not (case['kind'] == 'eucl' and case.get('kind2') == 'eucl'):
            continue
        s2 = dict(measure=m2, prev=m, sigma='none', ties=ties)
        ok, g4 = ctx.guarded('repeat_same_objects', s2, compare, a, b, method=m2, data=wit)
        if not ok:
            continue
        ctx.case('repeat_same_objects', s2)
        want4 = np.array([[ref_value(m2, x, y, n, None) for y in v2] for x in v1])
        r4, a4 = tol_of(m2, 'none')
        if not close(np.asarray(g4), want4, r4, a4):
            ctx.fail('repeat_same_objects', s2, f'{m2} after {m} on the same objects: max diff '
                     f'{maxdiff(g4, want4)}', wit(second=m2))
            break
    va = a.dissimilarities if as_rdms else a
    vb = b.dissimilarities if as_rdms else b
    if not (np.array_equal(va, v1) and np.array_equal(vb, v2)):
        ctx.fail('repeat_same_objects', dict(measure=m, aspect='inputs_modified'),
                 f'compare(..., {m!r}) modified its input arrays', wit())
    # simultaneous condition permutation (sigma permuted alike)
    perm = rng.permutation(n)
    p1 = np.array([permute_vec(v, n, perm) for v in v1])
    p2 = np.array([permute_vec(v, n, perm) for v in v2])
    kwp = {}
    if m in ('cosine_cov', 'corr_cov'):
        if sigma is None:
            kwp = {'sigma_k': None}
        elif sigma.ndim == 1:
            kwp = {'sigma_k': sigma[perm].copy()}
        else:
            kwp = {'sigma_k': sigma[np.ix_(perm, perm)].copy()}
    ok, gp = ctx.guarded('cond_permutation', sig, compare, p1, p2, method=m,
                         data=lambda: wit(perm=perm), **kwp)
    if ok:
        ctx.case('cond_permutation', sig)
        rt2, at2 = (2 * rt, 2 * at) if case['sk'] != 'none' else (max(rt, 1e-8), max(at, 1e-9))
        if not close(np.asarray(gp), got, rt2, at2):
            ctx.fail('cond_permutation', sig, f'permuting conditions of both stacks changed the result by '
                     f'{maxdiff(gp, got)}', wit(perm=perm))
    # ndarray vs RDMs inputs
    a2 = v1.copy() if as_rdms else RDMs(v1.copy())
    b2 = v2.copy() if as_rdms else RDMs(v2.copy())
    mix = int(rng.integers(3))
    if mix == 1:
        a2 = a
    elif mix == 2:
        b2 = b
    ok, g2 = ctx.guarded('input_type', sig, compare, a2, b2, method=m, data=wit, **kw)
    if ok:
        ctx.case('input_type', sig)
        if not close(np.asarray(g2), got, 1e-12, 1e-13):
            ctx.fail('input_type', sig, f'ndarray vs RDMs inputs differ by {maxdiff(g2, got)}', wit())
    # one RDM given as a plain 1-d vector, in either or both positions
    for form in ('1d_second', '1d_both'):
        x1 = v1[0].copy() if form == '1d_both' else v1[:1].copy()
        ok, g5 = ctx.guarded('input_type', sig, compare, x1, v2[0].copy(), method=m, data=wit, **kw)
        if ok:
            ctx.case('input_type', dict(sig, one_d=form))
            if not close(np.asarray(g5).ravel(), got[:1, :1].ravel(), 1e-12, 1e-13):
                ctx.fail('input_type', dict(sig, what=form), f'{form}: compare of the first RDMs given as 1-d vectors is '
                         f'{np.asarray(g5).tolist()}, the stack entry is {got[0, 0]!r}', wit())
                return
    # the two stacks stored differently: whole-number dissimilarities of the first stack in an integer array (int64, int8
    # when they fit) against the float64 second stack -- and the other way round
    if np.all(v1 == np.round(v1)) and np.all(np.abs(v1) < 2 ** 40):
        idt = np.int8 if np.all(np.abs(v1) < 120) and rng.integers(2) else np.int64
        for first, second, tr in ((v1.astype(idt), v2.copy(), False), (v2.copy(), v1.astype(idt), True)):
            ok, g6 = ctx.guarded('input_type', sig, compare, first, second, method=m, data=wit, **kw)
            if ok:
                ctx.case('input_type', dict(sig, mixed_storage=str(np.dtype(idt))))
                g6 = np.asarray(g6).T if tr else np.asarray(g6)
                if not close(g6, got, max(rt, 1e-12), max(at, 1e-13)):
                    ctx.fail('input_type', dict(sig, what='mixed_storage'), f'an integer-stored ({np.dtype(idt)}) stack '
                             f'against a float64 stack ({"second" if tr else "first"} argument integer) differs from the '
                             f'all-float64 result by {maxdiff(g6, got)}', wit())
                    return
    # 1-d ndarray input = one RDM
    if v1.shape[0] == 1:
        ok, g3 = ctx.guarded('input_type', sig, compare, v1[0].copy(), b, method=m, data=wit, **kw)
        if ok:
            ctx.case('input_type', dict(sig, one_d=True))
            if not close(np.asarray(g3), got, 1e-12, 1e-13):
                ctx.fail('input_type', sig, '1-d vector input differs', wit())


def run_with_degenerate_member(ctx, m):
    """stacks in which ONE member is degenerate for the measure (all-zero for cosine-type, constant for
    correlation / rank type): the entries pairing two non-degenerate RDMs must still equal the definition"""
    rng = ctx.rng
    n = int(rng.integers(3, 7))
    n1, n2 = int(rng.integers(2, 5)), int(rng.integers(2, 5))
    v1 = gen.rdm_vectors(rng, n1, n, 'pos')
    v2 = gen.rdm_vectors(rng, n2, n, 'pos')
    bad1 = int(rng.integers(n1)) if rng.integers(3) else None
    bad2 = int(rng.integers(n2)) if (bad1 is None or rng.integers(2)) else None
    val = 0.0 if m == 'cosine' else float(gen.pick(rng, [0.0, 1.0, 2.5]))
    if bad1 is not None:
        v1[bad1] = val
    if bad2 is not None:
        v2[bad2] = val
    sig = dict(measure=m, sigma='none', ties=False, degenerate_member=True)
    wit = lambda **k: dict(measure=m, v1=v1, v2=v2, n_cond=n, **k)  # noqa: E731
    ok, got = ctx.guarded('definition_beside_degenerate', sig, compare, RDMs(v1.copy()), RDMs(v2.copy()),
                          method=m, data=wit)
    if not ok:
        return
    got = np.asarray(got)
    ctx.case('definition_beside_degenerate', sig)
    for i in range(n1):
        for j in range(n2):
            if i == bad1 or j == bad2:
                continue
            want = ref_value(m, v1[i], v2[j], n, None)
            if not close(got[i, j], want, 1e-9, 1e-10):
                ctx.fail('definition_beside_degenerate', sig, f'entry ({i},{j}) pairs two proper RDMs but is '
                         f'{got[i, j]!r} instead of {want!r} (a degenerate RDM sits at row {bad1} / column '
                         f'{bad2} of the stacks)', wit(got=got))
                return


def run_same_sigma_sequence(ctx):
    """several whitened comparisons in a row with ONE sigma_k on pattern-bootstrapped RDMs (a repeated condition leaves a
    NaN entry; the samples differ in where it sits, not in how many there are): each value equals the definition on the
    entries present, with the matching rows and columns of V deleted -- whatever was computed before"""
    rng = ctx.rng
    n_cond = int(rng.integers(5, 8))
    m = gen.pick(rng, ['cosine_cov', 'corr_cov'])
    sk = gen.pick(rng, ['vector', 'matrix'])
    sigma = rng.uniform(0.5, 3.0, size=n_cond) if sk == 'vector' else gen.spd(rng, n_cond, 30.0)
    src1 = RDMs(gen.rdm_vectors(rng, 2, n_cond, 'eucl'))
    src2 = RDMs(gen.rdm_vectors(rng, 1, n_cond, 'pos'))
    sig = dict(measure=m, sigma=sk, what='sequence_same_sigma')
    ii, jj = np.triu_indices(n_cond, 1)
    for step in range(3):
        idx = np.arange(n_cond)
        dup = int(rng.integers(n_cond - 1))
        idx[dup + 1] = idx[dup]                      # one condition drawn twice, at a position that moves
        a, b = src1.subsample_pattern('index', idx), src2.subsample_pattern('index', idx)
        va, vb = a.get_vectors(), b.get_vectors()
        keep = ~np.isnan(va[0])
        wit = lambda **k: dict(measure=m, sigma_k=sigma, idx=idx, step=step, va=va, vb=vb, **k)  # noqa: E731,B023
        ok, got = ctx.guarded('definition:' + m, sig, compare, a, b, method=m, sigma_k=sigma.copy(), data=wit)
        if not ok:
            return
        ctx.case('definition:' + m, sig)
        # sigma_k refers to the conditions of the sample: position p of the sample holds condition idx[p]
        v = ref.v_matrix(n_cond, sigma)[np.ix_(keep, keep)]
        f = ref.whitened_cosine if m == 'cosine_cov' else ref.whitened_corr
        want = np.array([[f(x[keep], y[keep], v) for y in vb] for x in va])
        if not close(np.asarray(got), want, 5e-4, 5e-5):
            ctx.fail('definition:' + m, sig, f'call {step + 1} of a sequence with the same sigma_k: max |got-want| = '
                     f'{maxdiff(got, want)}', wit(got=got, want=want))
            return


def run(ctx):
    n = ctx.n(330, 3000)
    for it in range(n):
        if ctx.out_of_time():
            ctx.notes.append(f'time budget reached after {it} cases')
            break
        measure = MEASURES[it % len(MEASURES)]
        case = make_case(ctx.rng, measure)
        if degenerate(case):
            ctx.count('rejected_degenerate')
            continue
        if not measure.startswith('bures') and not case['ustore'] and case['v1'].dtype.kind == 'f' and it % 4 == 1:
            # measurement units: squared distances of MEG data in T^2 are of order 1e-24, of raw scanner values 1e8; all
            # measures but the Bures metric are free of the unit of either side
            u1, u2 = (10.0 ** float(gen.pick(ctx.rng, [-24, -12, -10, 8])) for _ in range(2))
            case['v1'], case['v2'] = case['v1'] * u1, case['v2'] * u2
            case['kind'] = case['kind'] + '_unit'
            ctx.count('cases_in_other_units')
        run_case(ctx, case)
        if it % 10 == 3:
            run_same_sigma_sequence(ctx)
        if it % 6 == 0:
            run_with_degenerate_member(ctx, gen.pick(ctx.rng, ['cosine', 'corr', 'spearman', 'cosine', 'corr']))
