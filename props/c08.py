"""C08  Fitted model parameters maximise the training criterion within constraints.

Monitor: result monitor on the fitters (fit_regress, fit_regress_nn, fit_optimize, fit_optimize_positive,
fit_select, fit_interpolate, Model.fit) and on the model classes' predict / predict_rdm / dict round trip.
Oracle: competitor search -- no competing parameter vector (random, local perturbations, coordinate grid,
all candidates, dense mixture grid) scores higher on the property's criterion, computed with reference
measures on reference-subsampled predictions; restriction to selected conditions by perturbation; model laws.
"""
import copy

import numpy as np

from rsatoolbox.model import (ModelFixed, ModelInterpolate, ModelSelect, ModelWeighted, fit_interpolate,
                              fit_optimize, fit_regress, fit_regress_nn, fit_select, model_from_dict)
from rsatoolbox.model.fitter import fit_optimize_positive
from rsatoolbox.rdm import RDMs
from vlib import gen, ref
from vlib.core import close, maxdiff

LEVEL = 'exploration'
LEVEL_TEXT = ('Seeded exploration of the real fitters under a result monitor: the returned parameters are scored '
              'with an independent implementation of the training criterion (mean similarity to the training RDMs '
              'on the selected conditions with bootstrap multiplicity) and challenged by a competitor search; '
              'conditions outside the selection are perturbed to show they cannot influence the fit; model '
              'prediction laws are asserted. Held on the K executions observed; a fitter sub-optimal by less than '
              'the solver tolerance is indistinguishable from a correct one.')
LEVEL_NOTE = ('Tolerances on the optimality gap: closed-form 1e-7, whitened (conjugate gradients inside the '
              'library) 5e-4, bounded scalar search 1e-4; the heuristic BFGS fitters (not named by the optimality '
              'clause) are sanity-checked at 3e-2 without sigma_k. Competitors are finite samples.')
DESIGN_REF = 'DESIGN.md section 4 / C08'
TECHNIQUE = 'competitor-search monitor with independent criterion + out-of-selection perturbation + model laws'
RULE = ('seeded generator over {fitter x method x sigma_k none/vector/matrix x selection (all / subset / bootstrap '
        'with repeats) x normalize x n_basis 2..4 x n_train 1..4}; non-trivial: >= n_basis+2 usable entries; '
        'distinct = configuration signature')
ASSUMPTIONS = ['ridge weight 0', 'training RDMs non-constant, basis RDMs linearly independent on the selection',
               'sigma_k SPD cond <= 20']
FITTERS = ['fit_regress', 'fit_regress_nn', 'fit_optimize', 'fit_optimize_positive', 'fit_select', 'fit_interpolate']
REQUIRED = ['check:optimal:' + f for f in FITTERS] + ['check:selection_only', 'check:model_laws',
                                                      'check:default_fitter', 'check:fitter_object', 'competitors_scored', 'bootstrap_selections']
REACH = FITTERS + ['_nn_least_squares', '_loss', 'ModelWeighted.predict', 'ModelWeighted.predict_rdm',
                   'ModelSelect.predict_rdm', 'ModelInterpolate.predict_rdm', 'ModelFixed.predict_rdm',
                   'model_from_dict']
FAIL_KEYS = ['fitter', 'method', 'sigma', 'selection', 'normalize', 'what', 'model', 'basis_storage']
TIME_BUDGET = {'quick': 100, 'thorough': 900}


def criterion(method, sigma, n_sub, keep):
    """returns score(pred_sub, data_sub): mean similarity on the kept entries"""
    if method.endswith('_cov'):
        v = ref.v_matrix(n_sub, sigma)[np.ix_(keep, keep)]
        vi = np.linalg.inv(v)
    else:
        vi = None

    def one(p, d):
        p, d = p[keep], d[keep]
        if method.startswith('corr'):
            p, d = p - p.mean(), d - d.mean()
        if vi is None:
            den = np.sqrt((p @ p) * (d @ d))
            return (p @ d) / den if den > 0 else -np.inf
        den = np.sqrt((p @ vi @ p) * (d @ vi @ d))
        return (p @ vi @ d) / den if den > 0 else -np.inf

    def score(pred, data):
        return float(np.mean([one(pred, d) for d in data]))
    return score


def make_problem(rng, n_basis=None, tiny=False, n_negative=None):
    n_cond = int(rng.integers(5, 9))
    n_basis = n_basis or int(rng.integers(2, 5))
    if tiny:
        # as many basis RDMs as (centred) dissimilarities: the regression is rank deficient, the optimum is not
        # unique, and the active-set iteration runs on rounding noise -- it must still terminate with a maximiser
        n_cond, n_basis = int(rng.integers(3, 5)), 3
    n_train = int(rng.integers(1, 5))
    basis = gen.rdm_vectors(rng, n_basis, n_cond, gen.pick(rng, ['pos', 'eucl']))
    w = rng.uniform(0, 2, size=n_basis)
    if n_negative is not None:
        for i in rng.choice(n_basis, size=min(n_negative, n_basis - 1), replace=False):
            w[int(i)] = -float(rng.uniform(0.3, 1.2))   # several weights leave the active set one after the other
    elif rng.integers(3) == 0:
        w[int(rng.integers(n_basis))] = -0.7    # unconstrained optimum outside the positive orthant
    scales = rng.uniform(0.2, 8, size=(n_train, 1))
    data = (w @ basis + 0.4 * rng.standard_normal((n_train, basis.shape[1]))) * scales
    if n_train >= 2 and rng.integers(3) == 0:
        # heterogeneous training RDMs: each with its own mixture (different shapes), so that the way the training RDMs
        # are normalised before pooling (which depends on sigma_k for the whitened criteria) matters
        data = np.array([rng.uniform(0, 2, size=n_basis) @ basis + 0.4 * rng.standard_normal(basis.shape[1])
                         for _ in range(n_train)]) * scales
    if rng.integers(3) == 0:
        data = data + rng.uniform(0, 3, size=(n_train, 1))
    selk = 'all' if tiny else gen.pick(rng, ['all', 'subset', 'bootstrap', 'bootstrap'])
    labels = [int(v) for v in rng.permutation(n_cond) * 3 + 2]   # non-0-based condition labels
    desc = gen.pick(rng, ['index', 'cond'])
    if desc == 'cond' and rng.integers(2):
        # condition names of different lengths, some a prefix of another ('c2', 'c20'): a selection handed over as a
        # fixed-width numpy string array is as wide as its longest member only
        labels = [f'c{v}' for v in labels]
    if selk == 'all':
        pos = list(range(n_cond))
    elif selk == 'subset':
        pos = sorted(int(i) for i in rng.choice(n_cond, size=int(rng.integers(4, n_cond + 1)), replace=False))
    else:
        pos = sorted(int(i) for i in rng.integers(0, n_cond, size=n_cond))
    unsel = [c for c in range(n_cond) if c not in set(pos)]
    if isinstance(labels[0], str) and unsel and rng.integers(2):
        # every left-out condition is named as a selected one plus a suffix, longer than any selected name: the
        # selection array is then narrower than the object's descriptor
        for j, c in enumerate(unsel):
            labels[c] = labels[pos[j % len(pos)]] + f'_{j}x'
    lab = list(range(n_cond)) if desc == 'index' else labels
    return dict(n_cond=n_cond, n_basis=n_basis, n_train=n_train, basis=basis, data=data, selk=selk,
                labels=labels, desc=desc, lab=lab, pos=pos)


def sub(vec, prob):
    return ref.subsample_vector(vec, prob['n_cond'], prob['pos'])


def model_rdms(prob, basis=None):
    basis = prob['basis'] if basis is None else basis
    return RDMs(basis.copy(), pattern_descriptors={'cond': list(prob['labels'])},
                rdm_descriptors={'name': [f'b{i}' for i in range(basis.shape[0])]},
                dissimilarity_measure='euclidean')


def data_rdms(prob, data=None):
    data = prob['data'] if data is None else data
    ds = np.array([sub(d, prob) for d in data])
    pd = {'cond': [prob['labels'][p] for p in prob['pos']], 'index': [int(p) for p in prob['pos']]}
    return gen.derived_cycle(RDMs(ds, pattern_descriptors=pd))     # at times a copy / unpickled / rebuilt from its dict


def call_fitter(fname, model, data_obj, prob, method, sigma, normalize):
    idx = np.array([prob['lab'][p] for p in prob['pos']])
    kw = dict(method=method, pattern_idx=idx, pattern_descriptor=prob['desc'])
    if prob['selk'] == 'all' and list(prob['pos']) == list(range(prob['n_cond'])) and (prob['n_cond'] % 2 == 0 or prob.get('no_sel')):
        kw = dict(method=method)        # all conditions in their own order: the selection arguments may simply be omitted
    if method.endswith('_cov'):
        # a preallocated covariance buffer overwritten from case to case (same object, new values)
        kw['sigma_k'] = gen.reused_buffer(sigma) if sigma is not None and len(prob['pos']) % 2 else sigma
    f = dict(fit_regress=fit_regress, fit_regress_nn=fit_regress_nn, fit_optimize=fit_optimize,
             fit_optimize_positive=fit_optimize_positive, fit_select=fit_select, fit_interpolate=fit_interpolate)[fname]
    if fname in ('fit_regress', 'fit_regress_nn', 'fit_optimize', 'fit_optimize_positive'):
        # the switch as a caller may hold it: a Python bool, a numpy bool or 0/1 -- its truth value counts
        form = len(prob['pos']) % 3
        kw['normalize'] = normalize if form == 0 else (np.bool_(normalize) if form == 1 else int(normalize))
    if fname == 'fit_regress_nn':
        with cycle_guard():
            return f(model, data_obj, **kw)
    return f(model, data_obj, **kw)


class ActiveSetCycle(Exception):
    """the deterministic active-set iteration of _nn_least_squares revisited a state: it can never terminate"""


class cycle_guard:
    """logical non-termination detector (no wall clock): a line tracer on the frame of the library's
    _nn_least_squares records the state (active set p, weights x, gradient w) each time the outer `while` is
    evaluated; the iteration is deterministic, so a repeated state is a proof of an infinite loop"""

    def __enter__(self):
        import sys
        from rsatoolbox.model import fitter as _f
        code = _f._nn_least_squares.__code__
        src_first = code.co_firstlineno
        import inspect
        lines = inspect.getsource(_f._nn_least_squares).splitlines()
        heads = [src_first + i for i, ln in enumerate(lines) if ln.strip().startswith('while (not np.all(p))')]
        self.head = heads[0] if heads else None
        self.prev = sys.gettrace()

        def local(frame, event, arg):
            if event == 'line' and frame.f_lineno == self.head:
                loc = frame.f_locals
                key = (loc['p'].tobytes(), loc['x'].tobytes(), loc['w'].tobytes())
                st = self.states.setdefault(id(frame), set())
                if key in st:
                    raise ActiveSetCycle(f'state repeated after {len(st)} iterations: p={loc["p"].tolist()} '
                                         f'x={loc["x"].tolist()}')
                st.add(key)
            return local

        def glob(frame, event, arg):
            if event == 'call' and frame.f_code is code and self.head is not None:
                return local
            return None
        self.states = {}
        sys.settrace(glob)
        return self

    def __exit__(self, *exc):
        import sys
        sys.settrace(self.prev)
        return False


def run_weighted(ctx, fname, force=None):
    rng = ctx.rng
    tiny = fname == 'fit_regress_nn' and force is None and rng.integers(5) == 0
    if force == 'nn_whitened':
        # non-negative fit under a given pattern covariance with 4-5 basis RDMs of which two carry negative true
        # weights: the active-set iteration has to remove weights and re-solve the *whitened* sub-problem
        prob = make_problem(rng, n_basis=int(rng.integers(4, 6)), n_negative=2)
        prob['selk'], prob['pos'] = 'all', list(range(prob['n_cond']))
    else:
        prob = make_problem(rng, tiny=tiny)
    if tiny:
        prob['selk'], prob['pos'] = 'all', list(range(prob['n_cond']))
    bunit = 1.0
    if fname in ('fit_regress', 'fit_regress_nn') and not tiny and force is None and rng.integers(3) == 0:
        # basis RDMs in other units than the data (raw squared distances of unscaled measurements are easily 1e5, unit
        # conversions give 1e-6): the optimal weights are then tiny or huge, the criterion is unchanged
        bunit = float(10.0 ** int(gen.pick(rng, [-6, -3, 3, 5, 7])))
        prob['basis'] = prob['basis'] * bunit
    if fname in ('fit_regress', 'fit_regress_nn') and not tiny and force is None and bunit == 1.0 and rng.integers(4) == 0:
        # basis RDMs holding whole numbers, stored in an integer array (ordinal model RDMs, counts), or categorical 0/1
        # RDMs stored as booleans (the result of `category[:, None] != category[None, :]`)
        if rng.integers(2):
            prob['basis'] = np.round(np.asarray(prob['basis']) * 10).astype(np.int64)
        else:
            prob['basis'] = rng.integers(0, 2, size=np.asarray(prob['basis']).shape).astype(bool)
        # the storage reaches the fitter only when no selection is made (a selection builds float copies): fit all
        # conditions without selection arguments
        prob['selk'], prob['pos'], prob['no_sel'] = 'all', list(range(prob['n_cond'])), True
    method = gen.pick(rng, ['cosine', 'corr', 'cosine_cov', 'corr_cov'])
    n_sub = len(prob['pos'])
    sk = gen.pick(rng, ['none', 'none', 'matrix']) if method.endswith('_cov') else 'none'  # the fitters document a matrix
    if force == 'nn_whitened':
        method, sk = gen.pick(rng, ['cosine_cov', 'corr_cov']), 'matrix'
    if fname.startswith('fit_optimize'):
        # the property's optimality clause names the regression fitters; the BFGS fitters are checked where their
        # loss is exact (with a sigma_k matrix the loss goes through conjugate gradients at rtol 1e-5, and the
        # finite-difference gradients of BFGS are noise -- observed gaps of 1e-2, recorded in DESIGN.md)
        sk = 'none'
    sigma = None
    if sk == 'vector':
        sigma = rng.uniform(0.5, 2.5, size=n_sub)
    elif sk == 'matrix':
        sigma = gen.spd(rng, n_sub, 20.0)
    normalize = bool(rng.integers(2))
    data_sub = np.array([sub(d, prob) for d in prob['data']])
    basis_sub = np.array([sub(b, prob) for b in prob['basis']])
    keep = ~np.isnan(data_sub[0])
    if tiny:
        if any(np.ptp(d[keep]) < 1e-9 for d in data_sub):
            ctx.count('rejected_degenerate')
            return
        ctx.count('rank_deficient_designs')
    elif keep.sum() < prob['n_basis'] + 2 or any(np.ptp(d[keep]) < 1e-9 for d in data_sub) or \
            np.linalg.matrix_rank(basis_sub[:, keep] - (basis_sub[:, keep].mean(axis=1, keepdims=True)
                                                        if method.startswith('corr') else 0)) < prob['n_basis']:
        ctx.count('rejected_degenerate')
        return
    if prob['selk'] == 'bootstrap' and len(set(prob['pos'])) < len(prob['pos']):
        ctx.count('bootstrap_selections')
    sig = dict(fitter=fname, method=method, sigma=sk, selection=prob['selk'], normalize=normalize,
               desc=prob['desc'], n_basis=prob['n_basis'], rank_deficient=bool(tiny), basis_unit=bunit,
               basis_storage={'f': 'float', 'i': 'int', 'b': 'bool'}.get(np.asarray(prob['basis']).dtype.kind, 'other'))
    wit = lambda **k: dict(basis=prob['basis'], data=prob['data'], pos=prob['pos'], labels=prob['labels'],  # noqa
                           desc=prob['desc'], method=method, sigma_k=sigma, fitter=fname, **k)
    model = ModelWeighted('w', model_rdms(prob))
    np.random.seed(int(rng.integers(2 ** 31)))   # fit_optimize draws its start points from the global RNG
    ok, theta = ctx.guarded('optimal:' + fname, sig, call_fitter, fname, model, data_rdms(prob), prob, method, sigma,
                            normalize, data=wit, expect_exc=(np.linalg.LinAlgError,) if tiny else ())
    if not ok:
        if tiny and isinstance(theta, np.linalg.LinAlgError):
            ctx.count('rejected_singular')    # an exactly singular normal matrix is refused, not mis-solved
        return
    theta = np.asarray(theta, dtype=float).ravel()
    ctx.case('optimal:' + fname, sig, sample={'fitter': fname, 'method': method, 'selection': prob['pos'],
                                              'theta': theta})
    if theta.shape != (prob['n_basis'],) or not np.all(np.isfinite(theta)):
        ctx.fail('optimal:' + fname, dict(sig, what='shape'), f'theta {theta}', wit())
        return
    score = criterion(method, sigma, n_sub, keep)
    positive = fname in ('fit_regress_nn', 'fit_optimize_positive')
    iterative = fname.startswith('fit_optimize')
    # BFGS fitters: heuristic multi-start optimisers outside the property's optimality clause (it names the
    # regression fitters); they are only sanity-checked against gross errors (observed honest gaps <= 2e-3)
    tol = 3e-2 if iterative else (5e-4 if method.endswith('_cov') else 1e-7)
    s_hat = score(theta @ basis_sub, data_sub)
    if normalize and np.any(theta != 0) and abs(np.linalg.norm(theta) - 1) > 1e-9:
        ctx.fail('optimal:' + fname, dict(sig, what='unit_norm'), f'normalize=True but |theta| = '
                 f'{np.linalg.norm(theta)!r}', wit(theta=theta))
    if positive and np.any(theta < -1e-12):
        ctx.fail('optimal:' + fname, dict(sig, what='negative_weight'), f'non-negative fitter returned {theta}',
                 wit(theta=theta))
    if iterative:
        # heuristic multi-start BFGS: not covered by the optimality clause (it names the regression fitters) and
        # observed to stop up to 6e-2 short of the optimum on this tree. Only the constraint clauses are decided
        # here (unit norm, non-negativity, finite values, restriction to the selected conditions).
        unused = [c for c in range(prob['n_cond']) if c not in set(prob['pos'])]
        if unused:
            iu = np.triu_indices(prob['n_cond'], 1)
            b2 = prob['basis'].copy()
            for col, (a, b) in enumerate(zip(iu[0], iu[1])):
                if a in unused or b in unused:
                    b2[:, col] = rng.uniform(0.05, 4, size=b2.shape[0])
            seed = int(rng.integers(2 ** 31))
            np.random.seed(seed)
            th_a = call_fitter(fname, model, data_rdms(prob), prob, method, sigma, normalize)
            np.random.seed(seed)
            th_b = call_fitter(fname, ModelWeighted('w', model_rdms(prob, b2)), data_rdms(prob), prob, method,
                               sigma, normalize)
            ctx.case('selection_only', sig)
            if not np.array_equal(np.asarray(th_a), np.asarray(th_b)):
                ctx.fail('selection_only', sig, f'{fname}: theta changed from {np.asarray(th_a).tolist()} to '
                         f'{np.asarray(th_b).tolist()} (same start points) when only model dissimilarities of '
                         f'unselected conditions {unused} were altered', wit(unused=unused))
        return
    # competitors
    nb = prob['n_basis']
    cands = []
    n_rand = ctx.n(100, 300)
    for _ in range(n_rand):
        cands.append(rng.standard_normal(nb))
    tn = theta / (np.linalg.norm(theta) or 1.0)
    for scale in (0.3, 0.1, 0.03, 0.01, 0.003, 0.001):
        for _ in range(ctx.n(15, 50)):
            cands.append(tn + scale * rng.standard_normal(nb))
    for i in range(nb):
        e = np.zeros(nb)
        e[i] = 1
        cands.append(e)
        for t in np.linspace(-1, 1, 9):
            cands.append(tn + t * e)
    cands.append(np.ones(nb))
    best, best_c = -np.inf, None
    for c in cands:
        if positive:
            c = np.maximum(c, 0)
        if not np.any(c):
            continue
        s = score(c @ basis_sub, data_sub)
        ctx.count('competitors_scored')
        if s > best:
            best, best_c = s, c
    if not np.any(theta):
        # the zero vector is the right answer of a non-negative fit iff no admissible combination is
        # positively similar to the data
        if best > tol:
            ctx.fail('optimal:' + fname, dict(sig, what='zero_solution'), f'fitter returned all-zero weights but '
                     f'competitor {np.asarray(best_c).tolist()} scores {best!r}', wit(theta=theta, competitor=best_c))
        else:
            ctx.count('zero_solution_accepted')
        return
    if not np.isfinite(s_hat) or best > s_hat + tol:
        ctx.fail('optimal:' + fname, sig, f'theta {theta.tolist()} scores {s_hat!r} but competitor '
                 f'{np.asarray(best_c).tolist()} scores {best!r} (gap {best - s_hat:.3e} > {tol})',
                 wit(theta=theta, competitor=best_c))
        return
    # only the selected conditions enter the fit (closed-form fitters: bit-identical theta)
    if fname in ('fit_regress', 'fit_regress_nn'):
        unused = [c for c in range(prob['n_cond']) if c not in set(prob['pos'])]
        if unused:
            iu = np.triu_indices(prob['n_cond'], 1)
            b2 = prob['basis'].copy()
            for col, (a, b) in enumerate(zip(iu[0], iu[1])):
                if a in unused or b in unused:
                    b2[:, col] = rng.uniform(0.05, 4, size=b2.shape[0])
            m2 = ModelWeighted('w', model_rdms(prob, b2))
            ok2, th2 = ctx.guarded('selection_only', sig, call_fitter, fname, m2, data_rdms(prob), prob, method,
                                   sigma, normalize, data=wit)
            if ok2:
                ctx.case('selection_only', sig)
                if not np.array_equal(np.asarray(th2, dtype=float).ravel(), theta):
                    ctx.fail('selection_only', sig, f'theta changed from {theta.tolist()} to '
                             f'{np.asarray(th2).ravel().tolist()} when only model dissimilarities of unselected '
                             f'conditions {unused} were altered', wit(unused=unused))


def run_select(ctx):
    rng = ctx.rng
    prob = make_problem(rng, n_basis=int(rng.integers(2, 6)))
    method = gen.pick(rng, ['cosine', 'corr', 'spearman', 'rho-a', 'cosine_cov'])
    n_sub = len(prob['pos'])
    data_sub = np.array([sub(d, prob) for d in prob['data']])
    basis_sub = np.array([sub(b, prob) for b in prob['basis']])
    keep = ~np.isnan(data_sub[0])
    if keep.sum() < 4 or any(np.ptp(d[keep]) < 1e-9 for d in list(data_sub) + list(basis_sub)):
        ctx.count('rejected_degenerate')
        return
    sigma = None
    if method == 'cosine_cov' and rng.integers(2):
        method = gen.pick(rng, ['cosine_cov', 'corr_cov'])
        sigma = gen.spd(rng, n_sub, 20.0)      # a given pattern covariance changes which candidate is best
    sig = dict(fitter='fit_select', method=method, selection=prob['selk'], sigma='none' if sigma is None else 'matrix')
    wit = lambda **k: dict(basis=prob['basis'], data=prob['data'], pos=prob['pos'], method=method, sigma_k=sigma, **k)  # noqa
    model = ModelSelect('s', model_rdms(prob))
    use_default = bool(rng.integers(2))
    idx = np.array([prob['lab'][p] for p in prob['pos']])
    if use_default:
        kws = {} if sigma is None else {'sigma_k': sigma.copy()}
        call = lambda: model.fit(data_rdms(prob), method=method, pattern_idx=idx, pattern_descriptor=prob['desc'], **kws)  # noqa
    else:
        call = lambda: call_fitter('fit_select', model, data_rdms(prob), prob, method, sigma, False)  # noqa: E731
    ok, theta = ctx.guarded('optimal:fit_select', sig, call, data=wit)
    if not ok:
        return
    ctx.case('optimal:fit_select', sig)
    if use_default:
        ctx.case('default_fitter', dict(model='ModelSelect'))
    if method in ('spearman', 'rho-a'):
        f = ref.spearman if method == 'spearman' else ref.rho_a_closed
        scores = [np.mean([f(b[keep], d[keep]) for d in data_sub]) for b in basis_sub]
    else:
        sc = criterion(method, sigma, n_sub, keep)
        scores = [sc(b, data_sub) for b in basis_sub]
    ctx.count('competitors_scored', len(scores))
    if scores[int(theta)] < max(scores) - (5e-4 if sigma is not None else 1e-9):
        ctx.fail('optimal:fit_select', sig, f'selected candidate {int(theta)} scores {scores[int(theta)]!r}, '
                 f'candidate {int(np.argmax(scores))} scores {max(scores)!r}', wit(theta=int(theta), scores=scores))


def run_interpolate(ctx):
    rng = ctx.rng
    prob = make_problem(rng, n_basis=int(rng.integers(2, 6)))
    # data close to a mixture of one adjacent pair, not necessarily the last one
    nb = prob['n_basis']
    j = int(rng.integers(nb - 1))
    w = float(rng.uniform(0, 1))
    tgt = w * prob['basis'][j] + (1 - w) * prob['basis'][j + 1]
    prob['data'] = np.array([tgt * float(rng.uniform(0.5, 3)) + 0.15 * rng.standard_normal(tgt.shape)
                             for _ in range(prob['n_train'])])
    method = gen.pick(rng, ['cosine', 'corr', 'cosine_cov'])
    # hostile class "vertex trap": the optimum is a pure RDM at the end of the chain whose neighbour is a large,
    # nearly anti-parallel RDM.  Geometry in a plane (e1, e2) of centred vectors: neighbour B = r*e1, vertex C at an
    # angle tc close to 180 deg, data at tc + delta (delta < 90 deg): C correlates weakly positively, B negatively, and
    # the mixtures in between swing through directions far worse than either end -- the bounded scalar search ends at
    # the wrong end unless the pure RDMs are evaluated
    trap = nb >= 3 and rng.integers(3) == 0
    if trap:
        v = int(gen.pick(rng, [nb - 1, nb - 1, 0]))
        nbr = v - 1 if v > 0 else 1
        b = prob['basis']
        npair = b.shape[1]

        def unit(x, *others):
            x = x - x.mean()
            for o in others:
                x = x - (x @ o) * o
            return x / np.linalg.norm(x)
        e1 = unit(rng.standard_normal(npair))
        e2 = unit(rng.standard_normal(npair), e1)
        e3 = unit(rng.standard_normal(npair), e1, e2)
        tc = np.deg2rad(rng.uniform(150, 178))
        phi = tc + np.deg2rad(rng.uniform(55, 85))
        pos_ = lambda x: x - x.min() + 0.1  # noqa: E731
        b[nbr] = pos_(float(rng.uniform(3, 8)) * e1)
        b[v] = pos_(np.cos(tc) * e1 + np.sin(tc) * e2)
        sigv = np.cos(phi) * e1 + np.sin(phi) * e2 + float(rng.uniform(0, 1)) * e3
        for o in range(nb):
            if o not in (v, nbr):    # remaining candidates: clearly worse than the vertex
                b[o] = pos_(-sigv + 0.5 * unit(rng.standard_normal(npair)))
        prob['data'] = np.array([pos_(sigv + 0.05 * rng.standard_normal(npair)) for _ in range(prob['n_train'])])
        prob['selk'], prob['pos'] = 'all', list(range(prob['n_cond']))
        method = 'corr'
        j = min(v, nb - 2)
    n_sub = len(prob['pos'])
    data_sub = np.array([sub(d, prob) for d in prob['data']])
    basis_sub = np.array([sub(b, prob) for b in prob['basis']])
    keep = ~np.isnan(data_sub[0])
    if keep.sum() < 4 or any(np.ptp(d[keep]) < 1e-9 for d in list(data_sub) + list(basis_sub)):
        ctx.count('rejected_degenerate')
        return
    sig = dict(fitter='fit_interpolate', method=method, selection=prob['selk'], sigma='none', n_basis=nb,
               best_pair_is_last=j == nb - 2, vertex_trap=bool(trap))
    wit = lambda **k: dict(basis=prob['basis'], data=prob['data'], pos=prob['pos'], method=method, **k)  # noqa: E731
    model = ModelInterpolate('i', model_rdms(prob))
    use_default = bool(rng.integers(2))
    idx = np.array([prob['lab'][p] for p in prob['pos']])
    if use_default:
        call = lambda: model.fit(data_rdms(prob), method=method, pattern_idx=idx, pattern_descriptor=prob['desc'])  # noqa
    else:
        call = lambda: call_fitter('fit_interpolate', model, data_rdms(prob), prob, method, None, False)  # noqa
    ok, theta = ctx.guarded('optimal:fit_interpolate', sig, call, data=wit)
    if not ok:
        return
    theta = np.asarray(theta, dtype=float).ravel()
    ctx.case('optimal:fit_interpolate', sig)
    if use_default:
        ctx.case('default_fitter', dict(model='ModelInterpolate'))
    nz = np.nonzero(theta)[0]
    if theta.shape != (nb,) or np.any(theta < -1e-12) or abs(theta.sum() - 1) > 1e-9 or \
            len(nz) > 2 or (len(nz) == 2 and nz[1] - nz[0] != 1):
        ctx.fail('optimal:fit_interpolate', dict(sig, what='not_adjacent_convex_mixture'),
                 f'theta {theta.tolist()} is not a convex mixture of two adjacent RDMs', wit(theta=theta))
        return
    sc = criterion(method, None, n_sub, keep)
    s_hat = sc(theta @ basis_sub, data_sub)
    best, best_t = -np.inf, None
    for p in range(nb - 1):
        for t in np.linspace(0, 1, 201):
            c = np.zeros(nb)
            c[p], c[p + 1] = t, 1 - t
            s = sc(c @ basis_sub, data_sub)
            ctx.count('competitors_scored')
            if s > best:
                best, best_t = s, c
    if best > s_hat + 1e-4:
        ctx.fail('optimal:fit_interpolate', sig, f'theta {theta.tolist()} scores {s_hat!r}; mixture '
                 f'{best_t.tolist()} scores {best!r}', wit(theta=theta, competitor=best_t))


def run_model_laws(ctx):
    rng = ctx.rng
    prob = make_problem(rng)
    nb = prob['n_basis']
    kind = gen.pick(rng, ['ModelWeighted', 'ModelSelect', 'ModelInterpolate', 'ModelFixed'])
    sig = dict(model=kind)
    wit = lambda **k: dict(basis=prob['basis'], model=kind, **k)  # noqa: E731
    rd = model_rdms(prob)
    if rng.integers(3) == 0:
        # basis RDMs stored as integers (ranks, ordinal ratings, binary category models): the weights stay real numbers
        ib = np.round(prob['basis'] * 4).astype(np.int64)
        prob = dict(prob, basis=ib.astype(float))
        rd = RDMs(ib.copy(), pattern_descriptors={'cond': list(prob['labels'])},
                  rdm_descriptors={'name': [f'b{i}' for i in range(ib.shape[0])]}, dissimilarity_measure='euclidean')
        sig['basis'] = 'integer'
    if kind == 'ModelFixed':
        rd = model_rdms(prob, prob['basis'][:1])
        m = ModelFixed('f', rd)
        thetas = [None]
    elif kind == 'ModelSelect':
        m = ModelSelect('s', rd)
        thetas = list(range(nb))
    elif kind == 'ModelWeighted':
        m = ModelWeighted('w', rd)
        thetas = [rng.standard_normal(nb), rng.uniform(0, 1, nb)]
    else:
        m = ModelInterpolate('i', rd)
        t = np.zeros(nb)
        t[0], t[1] = 0.3, 0.7
        thetas = [t, rng.uniform(0, 1, nb)]
    ctx.case('model_laws', sig)
    try:
        for th in thetas:
            pv = np.asarray(m.predict(th) if th is not None else m.predict(), dtype=float).ravel()
            pr = m.predict_rdm(th) if th is not None else m.predict_rdm()
            if not close(pv, pr.dissimilarities[0], 1e-12, 1e-13):
                ctx.fail('model_laws', dict(sig, what='predict_vs_predict_rdm'), f'predict and predict_rdm differ for '
                         f'theta {th}: {maxdiff(pv, pr.dissimilarities[0])}', wit(theta=th))
                return
            if [str(v) for v in pr.pattern_descriptors['cond']] != [str(v) for v in prob['labels']]:
                ctx.fail('model_laws', dict(sig, what='descriptors'), 'prediction lost the model\'s condition '
                         'descriptors', wit())
                return
            m2 = model_from_dict(copy.deepcopy(m.to_dict()))
            p2 = np.asarray(m2.predict(th) if th is not None else m2.predict(), dtype=float).ravel()
            if type(m2) is not type(m) or m2.name != m.name or not np.array_equal(p2, pv):
                ctx.fail('model_laws', dict(sig, what='dict_round_trip'), 'model rebuilt from its dict predicts '
                         'differently', wit(theta=th))
                return
        if kind in ('ModelWeighted', 'ModelInterpolate'):
            a, b = rng.uniform(0, 1, nb), rng.uniform(0, 1, nb)
            s, t = 0.7, 2.5
            lhs = np.asarray(m.predict(s * a + t * b))
            rhs = s * np.asarray(m.predict(a)) + t * np.asarray(m.predict(b))
            if not close(lhs, rhs, 1e-10, 1e-12):
                ctx.fail('model_laws', dict(sig, what='linearity'), f'prediction not linear in the weights: '
                         f'{maxdiff(lhs, rhs)}', wit())
    except Exception as exc:
        ctx.fail('model_laws', dict(sig, exception=type(exc).__name__), repr(exc), wit())


def run_rank_deficient(ctx):
    """fit_regress_nn on the smallest rank-deficient designs (3 conditions = 3 dissimilarities, 3 basis RDMs, centred
    by 'corr'): the call must terminate (logical cycle detector, no wall clock), give non-negative finite weights and
    not be beaten by non-negative competitors"""
    rng = ctx.rng
    n_cond = 3
    npair = 3
    basis = rng.uniform(0.05, 3.0, size=(3, npair))
    n_train = int(rng.integers(1, 3))
    data = rng.uniform(0.05, 3.0, size=(n_train, npair))
    method = gen.pick(rng, ['corr', 'corr', 'cosine'])
    sig = dict(fitter='fit_regress_nn', method=method, rank_deficient=True, direct=True)
    wit = lambda **k: dict(basis=basis, data=data, method=method, **k)  # noqa: E731
    model = ModelWeighted('w', RDMs(basis.copy()))

    def call():
        with cycle_guard():
            return fit_regress_nn(model, RDMs(data.copy()), method=method)
    ok, theta = ctx.guarded('optimal:fit_regress_nn', sig, call, data=wit, expect_exc=(np.linalg.LinAlgError,))
    if not ok:
        if isinstance(theta, np.linalg.LinAlgError):
            ctx.count('rejected_singular')
        return
    ctx.count('rank_deficient_designs')
    theta = np.asarray(theta, dtype=float).ravel()
    ctx.case('optimal:fit_regress_nn', sig)
    if theta.shape != (3,) or not np.all(np.isfinite(theta)) or np.any(theta < -1e-12):
        ctx.fail('optimal:fit_regress_nn', dict(sig, what='negative_weight'), f'weights {theta}', wit(theta=theta))
        return
    keep = np.ones(npair, bool)
    if any(np.ptp(d) < 1e-9 for d in data):
        return
    score = criterion(method, None, n_cond, keep)
    s_hat = score(theta @ basis, data) if np.any(theta != 0) else -np.inf
    best, best_c = -np.inf, None
    for c in np.abs(rng.standard_normal((40, 3))).tolist() + np.eye(3).tolist():
        sc = score(np.asarray(c) @ basis, data)
        ctx.count('competitors_scored')
        if sc > best:
            best, best_c = sc, c
    if np.isfinite(best) and best > 1e-7 and (not np.isfinite(s_hat) or best > s_hat + 1e-6):
        ctx.fail('optimal:fit_regress_nn', dict(sig, what='beaten'), f'weights {theta.tolist()} score {s_hat!r}; the '
                 f'non-negative competitor {best_c} scores {best!r}', wit(theta=theta, competitor=best_c))


def run_fitter_object(ctx):
    """a Fitter object behaves as its fitting function with the stored settings -- on every call, whatever was passed
    to earlier calls of the same object"""
    from rsatoolbox.model.fitter import Fitter
    rng = ctx.rng
    prob = make_problem(rng)
    prob['selk'], prob['pos'] = 'all', list(range(prob['n_cond']))
    fname = gen.pick(rng, ['fit_regress', 'fit_regress_nn'])
    fn = {'fit_regress': fit_regress, 'fit_regress_nn': fit_regress_nn}[fname]
    stored = gen.pick(rng, [{}, {'ridge_weight': 0.5}, {'normalize': False}])
    fobj = Fitter(fn, **stored)
    model = ModelWeighted('w', model_rdms(prob))
    sig = dict(fitter='Fitter(' + fname + ')', stored=','.join(sorted(stored)) or 'none')
    wit = lambda **k: dict(basis=prob['basis'], data=prob['data'], stored=stored, fitter=fname, **k)  # noqa: E731
    n_sub = prob['n_cond']
    calls = []
    for _ in range(int(rng.integers(2, 4))):
        kw = {}
        if rng.integers(2):
            kw['method'] = gen.pick(rng, ['corr', 'cosine'])
        if rng.integers(2):
            pos = sorted(int(i) for i in rng.choice(n_sub, size=int(rng.integers(4, n_sub + 1)), replace=False))
            kw['pattern_idx'] = np.array(pos)
            kw['pattern_descriptor'] = 'index'
        calls.append(kw)
    for i, kw in enumerate(calls):
        def data_for(kw):
            d = RDMs(prob['data'].copy())
            return d if 'pattern_idx' not in kw else d.subsample_pattern('index', kw['pattern_idx'])
        ok, got = ctx.guarded('fitter_object', sig, fobj, model, data_for(kw), data=wit, **kw)
        ok2, want = ctx.guarded('fitter_object', sig, fn, model, data_for(kw), data=wit, **dict(stored, **kw))
        if not (ok and ok2):
            return
        ctx.case('fitter_object', dict(sig, call=i))
        if not np.array_equal(np.asarray(got, dtype=float), np.asarray(want, dtype=float)):
            ctx.fail('fitter_object', dict(sig, what='history_dependent'), f'call {i} of the Fitter object with {sorted(kw)} '
                     f'returned {np.asarray(got).tolist()}, the fitting function with the stored settings returns '
                     f'{np.asarray(want).tolist()} (earlier calls: {[sorted(c) for c in calls[:i]]})', wit(calls=calls))
            return
    if fobj.kwargs != stored:
        ctx.fail('fitter_object', dict(sig, what='stored_settings_changed'), f'stored settings {stored} became '
                 f'{fobj.kwargs}', wit(calls=calls))


def run(ctx):
    for _ in range(ctx.n(2500, 4000)):
        run_rank_deficient(ctx)
    for _ in range(ctx.n(40, 120)):
        run_fitter_object(ctx)
    for _ in range(ctx.n(40, 120)):
        run_weighted(ctx, 'fit_regress_nn', force='nn_whitened')
    n = ctx.n(100, 300)
    for it in range(n):
        if ctx.out_of_time():
            ctx.notes.append(f'time budget reached after {it} rounds')
            break
        run_weighted(ctx, 'fit_regress')
        run_weighted(ctx, 'fit_regress_nn')
        run_weighted(ctx, 'fit_regress' if it % 2 else 'fit_regress_nn')
        if it % 6 == 0:
            run_weighted(ctx, 'fit_optimize')
        if it % 6 == 3:
            run_weighted(ctx, 'fit_optimize_positive')
        run_select(ctx)
        run_interpolate(ctx)
        run_model_laws(ctx)
