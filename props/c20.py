"""C20  Importers recover exactly the structure encoded in external names and files.

Monitor: round-trip monitor on BIDS parse/format (exhaustive over entity presence/absence), result monitor on
synthetic Meadows (.mat / .json), MNE epochs, event tables (HRF design matrix) and an SPM high-pass filter basis.
Oracle: inverse law parse -> rebuild; an independent path builder for look-ups; the contents written into the
synthetic files; the projector identity Y - X0 (X0' Y).
"""
import itertools
import json
import os
import shutil
import tempfile

import numpy as np
import pandas as pd
import scipy.io

from rsatoolbox.io.bids import BidsFile, BidsLayout
from rsatoolbox.io.fmriprep import make_design_matrix
from rsatoolbox.io.meadows import load_rdms
from rsatoolbox.io.mne import dataset_from_epochs, descriptors_from_bids_filename
from rsatoolbox.io.spm import SpmGlm
from vlib import gen, ref
from vlib.core import close, maxdiff

LEVEL = 'exploration'
LEVEL_TEXT = ('Exhaustive enumeration of BIDS entity presence/absence (x label values chosen to collide with the entity '
              'keys) for the parse -> rebuild law and the look-ups, and seeded exploration of synthetic Meadows files '
              '(single/multi participant .mat, multi-task .json, shuffled stimulus order, non-alphabetical '
              'participants), MNE epochs built from id-encoded arrays, event tables for the HRF design matrix and '
              'orthonormal filter bases for the SPM high-pass projection. Held on everything enumerated / observed.')
LEVEL_NOTE = ('Subject-level files without a modality directory are outside the entity list of the statement and not '
              'generated. nitools / nibabel are replaced by stubs (the SPM filter itself is the code under test).')
DESIGN_REF = 'DESIGN.md section 4 / C20'
TECHNIQUE = 'round-trip monitor (exhaustive over entity presence) + result monitors on synthetic external files'
RULE = ('BIDS: all 2^6 presence patterns of {ses, task, run, space, desc, derivative} x 3 label sets x 4 suffix/ext '
        'pairs x 3 modalities; Meadows: {single/multi participant mat, json} x stimuli order x participants x tasks; '
        'MNE: random epochs arrays; design: random event tables / TR / confounds; SPM: random run structures; a case = '
        'one path / file / table; distinct = configuration signature')
ASSUMPTIONS = ['paths always contain a modality directory', 'events leave room for the HRF tail inside the scan']
REQUIRED = ['check:bids_roundtrip', 'check:bids_lookup', 'check:meadows_mat_single', 'check:meadows_mat_multi',
            'check:meadows_json', 'check:mne_epochs', 'check:design_matrix', 'check:spm_filter']
REACH = ['BidsFile._deconstruct', 'BidsFile._findEntity', 'BidsLayout._replace', 'BidsLayout.find_events_for',
         'BidsLayout.find_meta_for', 'BidsLayout.find_table_sibling_of', 'BidsLayout.find_mri_sibling_of', 'load_rdms',
         'load_rdms_comps_mat', 'load_rdms_comps_json', 'extract_filename_segments', 'dataset_from_epochs',
         'make_design_matrix', 'SpmGlm.spm_filter']
FAIL_KEYS = ['what', 'importer', 'lookup']
TIME_BUDGET = {'quick': 90, 'thorough': 600}

ENT = ['ses', 'task', 'run', 'space', 'desc', 'derivative']
LABELS = [dict(sub='01', ses='02', task='rest', run='3', space='MNI152', desc='preproc', derivative='fmriprep'),
          # labels whose first letters also occur in their own entity key (and in other keys)
          dict(sub='s01', ses='early', task='stroop', run='nur7', space='cortex', desc='smoothed', derivative='deriv'),
          dict(sub='bus', ses='s', task='kat', run='r1', space='apes', desc='desc', derivative='spm12')]
SUFFIXES = [('bold', 'nii.gz'), ('events', 'tsv'), ('T1w', 'nii'), ('mask', 'json')]
MODALITIES = ['func', 'anat', 'meg']


def build_path(e):
    """independent path builder following the BIDS grammar (entity order sub, ses, task, run, space, desc)"""
    segs = []
    if e.get('derivative'):
        segs += ['derivatives', e['derivative']]
    segs.append(f"sub-{e['sub']}")
    if e.get('ses'):
        segs.append(f"ses-{e['ses']}")
    segs.append(e['modality'])
    name = [f"sub-{e['sub']}"]
    for k in ('ses', 'task', 'run', 'space', 'desc'):
        if e.get(k):
            name.append(f'{k}-{e[k]}')
    name.append(f"{e['suffix']}.{e['ext']}")
    segs.append('_'.join(name))
    return os.path.join(*segs)


def run_bids(ctx):
    layout = BidsLayout('/data/study')
    n = 0
    for li, lab in enumerate(LABELS):
        for present in itertools.product([False, True], repeat=len(ENT)):
            for (suffix, ext), modality in itertools.product(SUFFIXES, MODALITIES):
                n += 1
                if ctx.nshards > 1 and n % ctx.nshards != ctx.shard:
                    continue
                e = dict(sub=lab['sub'], suffix=suffix, ext=ext, modality=modality)
                for k, p in zip(ENT, present):
                    e[k] = lab[k] if p else None
                path = build_path(e)
                sig = dict(importer='bids', labels=li, present=''.join('1' if p else '0' for p in present), suffix=suffix)
                wit = lambda **k: dict(path=path, entities=e, **k)  # noqa: E731
                ok, f = ctx.guarded('bids_roundtrip', sig, BidsFile, path, layout, data=wit)
                if not ok:
                    return
                ctx.case('bids_roundtrip', sig, sample={'path': path} if n % 97 == 0 else None)
                got = {k: getattr(f, k, None) for k in ['sub'] + ENT + ['suffix', 'ext', 'modality']}
                bad = {k: (got[k], e[k]) for k in got if (got[k] or None) != (e[k] or None)}
                if bad:
                    ctx.fail('bids_roundtrip', dict(importer='bids', what='parse'), f'{path}: parsed entities differ from '
                             f'the ones encoded in the path: {bad}', wit(parsed=got))
                    return
                back = layout._replace(f, {})
                if back != path:
                    ctx.fail('bids_roundtrip', dict(importer='bids', what='rebuild'), f'rebuilding {path} from its parsed '
                             f'entities gives {back}', wit(rebuilt=back))
                    return
                # look-ups change only the entities they are asked to change
                lookups = {
                    'meta': (layout.find_meta_for(f), dict(ext='json')),
                    'events': (layout.find_events_for(f), dict(derivative=None, space=None, desc=None, suffix='events', ext='tsv')),
                    'table_sibling': (layout.find_table_sibling_of(f, 'confounds', 'timeseries'),
                                      dict(desc='confounds', suffix='timeseries', ext='tsv', space=None)),
                    'mri_sibling': (layout.find_mri_sibling_of(f, 'brain', 'mask'), dict(desc='brain', suffix='mask')),
                }
                for name, (res, change) in lookups.items():
                    want = build_path(dict(e, **change))
                    ctx.case('bids_lookup', dict(importer='bids', lookup=name, labels=li), nontrivial=True)
                    if res.relpath != want:
                        ctx.fail('bids_lookup', dict(importer='bids', what='lookup', lookup=name), f'{name} look-up for '
                                 f'{path} returned {res.relpath}, expected {want} (only {sorted(change)} may change)',
                                 wit(lookup=name, got=res.relpath, want=want))
                        return
    # BIDS-style descriptors from an epochs file name
    for lab in LABELS:
        fname = f"sub-{lab['sub']}_task-{lab['task']}_run-{lab['run']}_epo.fif"
        d = descriptors_from_bids_filename(fname)
        ctx.case('bids_roundtrip', dict(importer='mne_filename'))
        if d != dict(sub=lab['sub'], task=lab['task'], run=lab['run']):
            ctx.fail('bids_roundtrip', dict(importer='mne_filename', what='parse'), f'{fname} -> {d}', dict(fname=fname))


# ---------------------------------------------------------------------------
def pet_names(rng, k):
    from rsatoolbox.io.petnames import PETNAMES
    pets = sorted(PETNAMES)
    adj = ['zesty', 'able', 'cuddly', 'brave', 'odd', 'mellow', 'keen']
    out = []
    while len(out) < k:
        nm = f'{gen.pick(rng, adj)}-{gen.pick(rng, pets)}'
        if nm not in out and '_' not in nm:
            out.append(nm)
    return out


def stimuli_names(rng, n):
    base = [f'stim{int(v):02d}' for v in rng.permutation(40)[:n]]
    return [b + gen.pick(rng, ['.png', '.jpg']) for b in base]


def check_loaded(ctx, check, sig, rdms, expect, wit, sort):
    """expect: list of dict(participant, task or None, stimuli (file order, with extension), utv (file order))"""
    if rdms.n_rdm != len(expect):
        ctx.fail(check, dict(sig, what='n_rdm'), f'{rdms.n_rdm} RDMs, file holds {len(expect)}', wit())
        return
    conds = [str(c) for c in rdms.pattern_descriptors['conds']]
    names0 = [s.split('.')[0] for s in expect[0]['stimuli']]
    if sort and conds != sorted(names0):
        ctx.fail(check, dict(sig, what='not_sorted'), f'conditions {conds} are not the alphabetically sorted stimulus names', wit())
        return
    if not sort and conds != names0:
        ctx.fail(check, dict(sig, what='order'), f'conditions {conds} != file order {names0}', wit())
        return
    mats = rdms.get_matrices()
    for i, ex in enumerate(expect):
        if str(rdms.rdm_descriptors['participant'][i]) != ex['participant']:
            ctx.fail(check, dict(sig, what='participant'), f'RDM {i} labelled participant '
                     f'{rdms.rdm_descriptors["participant"][i]!r}, file says {ex["participant"]!r}', wit())
            return
        if ex.get('task') is not None and str(rdms.rdm_descriptors['task'][i]) != ex['task']:
            ctx.fail(check, dict(sig, what='task'), f'RDM {i} labelled task {rdms.rdm_descriptors["task"][i]!r}, file '
                     f'says {ex["task"]!r}', wit())
            return
        names = [s.split('.')[0] for s in ex['stimuli']]
        full = ref.square(np.asarray(ex['utv'], dtype=float), len(names))
        for a in range(len(conds)):
            for b in range(a + 1, len(conds)):
                want = full[names.index(conds[a]), names.index(conds[b])]
                if mats[i, a, b] != want:
                    ctx.fail(check, dict(sig, what='values'), f'RDM {i} ({ex["participant"]}): dissimilarity of '
                             f'{conds[a]},{conds[b]} is {mats[i, a, b]!r}, file value {want!r}', wit())
                    return


def run_meadows(ctx, scratch):
    rng = ctx.rng
    n_stim = int(rng.integers(3, 8))
    n_pair = n_stim * (n_stim - 1) // 2
    sort = bool(rng.integers(2))
    exp = gen.pick(rng, ['myExp', 'faces2', 'objectsB'])
    # --- single participant .mat
    p = pet_names(rng, 1)[0]
    tidx = int(rng.integers(1, 9))
    stim = stimuli_names(rng, n_stim)
    utv = np.round(rng.uniform(0.1, 2, size=n_pair), 4)
    path = os.path.join(scratch, f'Meadows_{exp}_v_v1_{p}_{tidx}_1D.mat')
    scipy.io.savemat(path, {'stimuli': np.array(stim), 'rdmutv': utv.reshape(1, -1)})
    sig = dict(importer='meadows', kind='mat_single', sort=sort)
    wit = lambda **k: dict(path=path, stimuli=stim, **k)  # noqa: E731
    ok, r = ctx.guarded('meadows_mat_single', sig, load_rdms, path, sort=sort, data=wit)
    if ok:
        ctx.case('meadows_mat_single', sig, sample={'file': os.path.basename(path), 'stimuli': stim})
        check_loaded(ctx, 'meadows_mat_single', sig, r, [dict(participant=p, stimuli=stim, utv=utv)], wit, sort)
        if ok and [int(v) for v in r.rdm_descriptors.get('task_index', [])] != [tidx]:
            ctx.fail('meadows_mat_single', dict(sig, what='task_index'), f'task_index {r.rdm_descriptors.get("task_index")} '
                     f'!= {tidx}', wit())
        if str(r.descriptors.get('experiment_name')) != exp:
            ctx.fail('meadows_mat_single', dict(sig, what='experiment_name'), f'{r.descriptors}', wit())
    # --- multi participant .mat (participants NOT in alphabetical order)
    ps = pet_names(rng, int(rng.integers(2, 5)))
    if ps == sorted(ps):
        ps = ps[::-1]
    task = gen.pick(rng, ['arrangement', 'similarity', 'ma1'])
    stim = stimuli_names(rng, n_stim)
    content, expect = {}, []
    for q in ps:
        u = np.round(rng.uniform(0.1, 2, size=n_pair), 4)
        content[f'stimuli_{q.replace("-", "_")}'] = np.array(stim)
        content[f'rdmutv_{q.replace("-", "_")}'] = u.reshape(1, -1)
        expect.append(dict(participant=q, task=task, stimuli=stim, utv=u))
    layout = gen.pick(rng, ['interleaved', 'grouped', 'grouped_other_order'])
    if layout != 'interleaved':   # variables grouped differently in the file; the two groups possibly in another
        # participant order (values and names are paired by participant name, not by position in the file)
        def pos(kv):
            i = ps.index('-'.join(kv[0].split('_')[1:]))
            is_utv = kv[0].startswith('rdmutv')
            return (not is_utv, -i if (is_utv and layout == 'grouped_other_order') else i)
        content = dict(sorted(content.items(), key=pos))
    path = os.path.join(scratch, f'Meadows_{exp}_v_v1_{task}_1D.mat')
    scipy.io.savemat(path, content)
    sig = dict(importer='meadows', kind='mat_multi', sort=sort, layout=layout)
    wit = lambda **k: dict(path=path, participants=ps, stimuli=stim, **k)  # noqa: E731
    ok, r = ctx.guarded('meadows_mat_multi', sig, load_rdms, path, sort=sort, data=wit)
    if ok:
        ctx.case('meadows_mat_multi', sig, sample={'file': os.path.basename(path), 'participants': ps})
        got_p = [str(v) for v in r.rdm_descriptors['participant']]
        by_p = {e['participant']: e for e in expect}
        if sorted(got_p) != sorted(ps):
            ctx.fail('meadows_mat_multi', dict(sig, what='participants'), f'participants {got_p} != {ps}', wit())
        else:
            check_loaded(ctx, 'meadows_mat_multi', sig, r, [by_p[q] for q in got_p], wit, sort)
    # --- single participant, multi-task json
    p = pet_names(rng, 1)[0]
    stim = stimuli_names(rng, n_stim)
    tasks, expect, expect_all = [], [], []
    reordered = bool(rng.integers(2))       # one later task lists the same stimuli in another order
    for t in range(int(rng.integers(2, 5))):
        ttype = gen.pick(rng, ['multiarrange', 'multiarrange', 'survey'])
        entry = {'task': {'task_type': ttype, 'name': f'task{t}'}}
        if ttype == 'multiarrange':
            u = np.round(rng.uniform(0.1, 2, size=n_pair), 4)
            own = list(stim)
            if reordered and expect_all and len(expect_all) == len(expect):
                own = [stim[int(i)] for i in rng.permutation(len(stim))]
                if own == list(stim):
                    own = own[::-1]
            entry['stimuli'] = [{'name': s} for s in own]
            entry['rdm'] = u.tolist()
            ex = dict(participant=p, task=f'task{t}', stimuli=own, utv=u, tidx=t)
            expect_all.append(ex)
            if own == list(stim):
                expect.append(ex)         # tasks with another stimulus order are skipped by the importer ("Varying stimuli")
        tasks.append(entry)
    if expect:
        path = os.path.join(scratch, f'Meadows_{exp}_v_v1_{p}_tree.json')
        with open(path, 'w', encoding='utf-8') as fh:
            json.dump({'token': 'x', 'tasks': tasks}, fh)
        sig = dict(importer='meadows', kind='json', sort=sort)
        wit = lambda **k: dict(path=path, tasks=tasks, **k)  # noqa: E731
        ok, r = ctx.guarded('meadows_json', sig, load_rdms, path, sort=sort, data=wit)
        if ok:
            ctx.case('meadows_json', sig, sample={'file': os.path.basename(path), 'n_tasks': len(tasks)})
            if r.n_rdm == len(expect_all) and len(expect_all) != len(expect):
                expect = expect_all      # the differently ordered task was kept: then its values must sit at its own labels
            check_loaded(ctx, 'meadows_json', sig, r, expect, wit, sort)
            if [int(v) for v in r.rdm_descriptors['task_index']] != [e['tidx'] for e in expect]:
                ctx.fail('meadows_json', dict(sig, what='task_index'), f'{r.rdm_descriptors["task_index"]}', wit())


def run_mne(ctx):
    import mne
    rng = ctx.rng
    n_ep, n_ch, n_t = int(rng.integers(1, 7)), int(rng.integers(1, 6)), int(rng.integers(2, 9))
    data = (1e4 * np.arange(1, n_ep + 1)[:, None, None] + 1e2 * np.arange(1, n_ch + 1)[None, :, None]
            + np.arange(n_t)[None, None, :]).astype(float) * 1e-6
    ch = [f'EEG{int(v):03d}' for v in rng.permutation(60)[:n_ch]]
    # sampling rates whose sample times are whole milliseconds (100, 250, 1000 Hz) and rates where they are not
    sfreq = float(gen.pick(rng, [100., 250., 1000., 256., 512., 600., 2048.]))
    tmin = float(gen.pick(rng, [-10, 0, 5])) / sfreq     # on the sampling grid (MNE requirement)
    codes = [int(v) for v in rng.integers(1, 5, size=n_ep)]
    events = np.array([[10 * (i + 1), 0, c] for i, c in enumerate(codes)])
    info = mne.create_info(ch, sfreq, ch_types='eeg')
    epochs = mne.EpochsArray(data.copy(), info, events=events, tmin=tmin, verbose='error')
    sig = dict(importer='mne', size1=1 in (n_ep, n_ch))
    wit = lambda **k: dict(codes=codes, channels=ch, sfreq=sfreq, tmin=tmin, **k)  # noqa: E731
    ok, ds = ctx.guarded('mne_epochs', sig, dataset_from_epochs, epochs, {'sub': '01'}, data=wit)
    if not ok:
        return
    ctx.case('mne_epochs', sig, sample={'n_epochs': n_ep, 'channels': ch, 'codes': codes})
    if not np.array_equal(ds.measurements, data):
        ctx.fail('mne_epochs', dict(sig, what='data'), 'measurements differ from the epochs data', wit())
    if [int(v) for v in ds.obs_descriptors['event']] != codes:
        ctx.fail('mne_epochs', dict(sig, what='event_codes'), f'{list(ds.obs_descriptors["event"])} != {codes}', wit())
    if [str(v) for v in ds.channel_descriptors['name']] != ch:
        ctx.fail('mne_epochs', dict(sig, what='channel_names'), 'channel names differ', wit())
    if not close(np.asarray(ds.time_descriptors['time'], dtype=float), np.asarray(epochs.times, dtype=float), 0, 1e-12) or \
            not close(np.asarray(ds.time_descriptors['time'], dtype=float), tmin + np.arange(n_t) / sfreq, 1e-9, 1e-9):
        ctx.fail('mne_epochs', dict(sig, what='times'), 'time points differ', wit())
    if ds.descriptors.get('sub') != '01':
        ctx.fail('mne_epochs', dict(sig, what='descriptors'), 'descriptors not carried', wit())


def run_design(ctx):
    rng = ctx.rng
    # repetition times on and off the 100 ms grid of the canonical kernel, several of them within one 100 ms step
    tr = float(gen.pick(rng, [1.0, 1.5, 1.52, 2.0, 2.02, 2.05, 0.72, 0.75]))
    n_cond = int(rng.integers(2, 5))
    names = [f'cond{c}' for c in rng.permutation(6)[:n_cond]]
    dur = float(gen.pick(rng, [2.0, 4.0, 6.0]))
    n_blocks = int(rng.integers(2, 4))
    order = [names[i % n_cond] for i in range(n_cond * n_blocks)]
    order = [order[i] for i in rng.permutation(len(order))]
    gap = dur + 12
    # the first block may have begun before the first volume (a negative onset: its response tail still lies in the scan)
    start = float(gen.pick(rng, [4 * tr, 4 * tr, 4 * tr, -1.3, -2 * tr]))
    onsets = np.array([start + i * gap for i in range(len(order))])
    n_vols = int(np.ceil((onsets[-1] + dur + 40) / tr)) + 6
    events = pd.DataFrame({'onset': onsets, 'duration': dur, 'trial_type': order})
    if rng.integers(2):
        # an events table that was assembled in another order and then sorted by onset: its row labels (the pandas index)
        # are a permutation of 0..n-1 -- rows are rows, whatever their labels
        shuffled = events.iloc[rng.permutation(len(events))].reset_index(drop=True)
        events = shuffled.sort_values('onset')
    n_conf = int(rng.integers(0, 4))
    conf = pd.DataFrame({f'cf{i}': rng.standard_normal(n_vols) for i in range(n_conf)}) if n_conf else None
    if conf is not None and rng.integers(2):
        conf['deriv'] = np.r_[np.nan, rng.standard_normal(n_vols - 1)]    # derivative columns have n/a first
    if conf is not None and rng.integers(2):
        # a flag column stored as booleans (motion outliers): a confound column like any other
        flag = rng.random(n_vols) < 0.2
        flag[:2] = [True, False]
        conf['outlier'] = flag
        n_conf += 1
    sig = dict(importer='design', confounds=n_conf > 0)
    wit = lambda **k: dict(events=events.to_dict('list'), tr=tr, n_vols=n_vols, n_conf=n_conf, **k)  # noqa: E731
    ok, out = ctx.guarded('design_matrix', sig, make_design_matrix, events, tr, n_vols, conf, data=wit)
    if not ok:
        return
    dm, mask, dof = out
    dm = np.asarray(dm, dtype=float)     # (a table mixing float and bool columns comes back as an object array)
    ctx.case('design_matrix', sig, sample={'tr': tr, 'n_vols': n_vols, 'conditions': list(dict.fromkeys(order))})
    first = list(dict.fromkeys(order))
    n_cols = n_cond + n_conf
    if dm.shape != (n_vols, n_cols):
        ctx.fail('design_matrix', dict(sig, what='shape'), f'design matrix shape {dm.shape}, expected {(n_vols, n_cols)}', wit())
        return
    if list(mask) != [True] * n_cond + [False] * n_conf:
        ctx.fail('design_matrix', dict(sig, what='confound_flags'), f'predictor mask {list(mask)}', wit())
    if dof != n_vols - n_cols:
        ctx.fail('design_matrix', dict(sig, what='dof'), f'dof {dof} != volumes - columns = {n_vols - n_cols}', wit())
    rng_ = dm.max(axis=0) - dm.min(axis=0)
    if not close(rng_, np.ones(n_cols), 1e-9, 1e-9) or not close(dm.mean(axis=0), np.zeros(n_cols), 1e-9, 1e-9):
        ctx.fail('design_matrix', dict(sig, what='normalisation'), f'columns are not range-normalised and centred: range '
                 f'{rng_.tolist()} mean {dm.mean(axis=0).tolist()}', wit())
        return
    # column c belongs to the c-th condition in first-appearance order: it follows that condition's blocks
    t = np.arange(n_vols) * tr
    for c, name in enumerate(first):
        box = np.zeros(n_vols)
        for o in onsets[[i for i, x in enumerate(order) if x == name]]:
            box[(t >= o + 4) & (t <= o + dur + 6)] = 1
        corr = [np.corrcoef(dm[:, k], box)[0, 1] for k in range(n_cond)]
        if int(np.argmax(corr)) != c:
            ctx.fail('design_matrix', dict(sig, what='column_order'), f'column {c} does not follow the blocks of condition '
                     f'{name!r} (first-appearance order {first}); correlations {np.round(corr, 2).tolist()}', wit())
            return
    # column content: the block response (canonical kernel, tabulated at 100 ms in rsatoolbox.io.hrf -- data, not logic --
    # convolved with the block, resampled at THIS run's TR with a shape-preserving cubic, peak-normalised) placed at
    # every onset of the condition, then centred and range-normalised
    from rsatoolbox.io.hrf import HRF
    from scipy.interpolate import PchipInterpolator
    blk = np.convolve(np.asarray(HRF, dtype=float), np.ones(int(dur / 0.1)))
    t_blk = np.arange(0, int((blk.size - 1) * 0.1), tr)
    resp = PchipInterpolator(np.arange(blk.size) * 0.1, blk)(t_blk)
    resp = resp / resp.max()
    t_resp = tr * np.arange(resp.size)
    for c, name in enumerate(first):
        col = np.zeros(n_vols)
        for o in onsets[[i for i, x in enumerate(order) if x == name]]:
            col += np.nan_to_num(PchipInterpolator(o + t_resp, resp, extrapolate=False)(t))
        col = (col - col.mean()) / (col.max() - col.min())
        ctx.count('design_columns_recomputed')
        # (tolerance 2e-3 of the unit range: a volume that falls on the very end of a response's support is inside or
        # outside it depending on the last bit, which moves that sample by the size of the kernel's tail, ~1e-4)
        if not close(dm[:, c], col, 0, 2e-3):
            ctx.fail('design_matrix', dict(sig, what='column_content'), f'column of condition {name!r} is not the block '
                     f'response at TR {tr} placed at its onsets (max deviation {maxdiff(dm[:, c], col)})', wit())
            return
    # shifting all onsets by whole TRs shifts the predictors by the same number of volumes
    k = int(rng.integers(1, 4))
    if start < 0:
        return      # (a block cut off by the start of the scan is a different predictor once it is shifted into the scan)
    ev2 = events.copy()
    ev2['onset'] = ev2['onset'] + k * tr
    dm2, _, _ = make_design_matrix(ev2, tr, n_vols, conf)
    if not close(dm2[k:, :n_cond], dm[:-k, :n_cond], 0, 2e-3):   # see above (1.7e-4 observed at TR 2.05)
        ctx.fail('design_matrix', dict(sig, what='shift'), f'shifting the onsets by {k} TR does not shift the predictors by '
                 f'{k} volumes (max deviation {maxdiff(dm2[k:, :n_cond], dm[:-k, :n_cond])})', wit(shift=k))


class _NoTools:
    pass


def run_spm(ctx):
    rng = ctx.rng
    n_runs = int(rng.integers(1, 5))
    nscans = np.array([int(v) for v in rng.integers(8, 25, size=n_runs)])
    n_vox = int(rng.integers(1, 7))
    glm = SpmGlm('/nonexistent/glm', nitoolsMock=_NoTools())
    glm.nscans = nscans
    glm.nruns = n_runs
    glm.filter_matrices = []
    for r in range(n_runs):
        k = int(rng.integers(1, 4))
        q, _ = np.linalg.qr(rng.standard_normal((int(nscans[r]), k)))
        glm.filter_matrices.append(q)
    data = rng.standard_normal((int(nscans.sum()), n_vox)) + np.linspace(0, 3, int(nscans.sum()))[:, None]
    before = data.copy()
    sig = dict(importer='spm', n_runs=n_runs)
    wit = lambda **k: dict(nscans=nscans, data=data, bases=[f.tolist() for f in glm.filter_matrices], **k)  # noqa: E731
    ok, out = ctx.guarded('spm_filter', sig, glm.spm_filter, data, data=wit)
    if not ok:
        return
    ctx.case('spm_filter', sig, sample={'nscans': nscans.tolist(), 'n_voxels': n_vox})
    if not np.array_equal(data, before):
        ctx.fail('spm_filter', dict(sig, what='input_modified'), 'spm_filter modified its input', wit())
        return
    bounds = np.r_[0, nscans.cumsum()]
    want = data.copy()
    for r in range(n_runs):
        y = data[bounds[r]:bounds[r + 1]]
        x0 = glm.filter_matrices[r]
        want[bounds[r]:bounds[r + 1]] = y - x0 @ (x0.T @ y)
    if out.shape != data.shape or not close(out, want, 1e-10, 1e-12):
        unchanged = np.array_equal(out, data)
        ctx.fail('spm_filter', dict(sig, what='not_filtered' if unchanged else 'projection'),
                 'spm_filter returned the input unfiltered' if unchanged else
                 f'output != Y - X0 (X0\' Y) per run (maxdiff {maxdiff(out, want)})', wit())
        return
    for r in range(n_runs):
        res = glm.filter_matrices[r].T @ out[bounds[r]:bounds[r + 1]]
        if np.abs(res).max() > 1e-9:
            ctx.fail('spm_filter', dict(sig, what='component_left'), f'run {r}: filtered data still have a component in the '
                     f'filter regressors ({np.abs(res).max()})', wit())
            return
    again = glm.spm_filter(out)
    if not close(again, out, 1e-10, 1e-12):
        ctx.fail('spm_filter', dict(sig, what='idempotent'), 'filtering twice differs from filtering once', wit())


def run(ctx):
    run_bids(ctx)
    scratch = tempfile.mkdtemp(prefix='verif-c20-')
    try:
        n = ctx.n(40, 800)
        for it in range(n):
            if ctx.out_of_time():
                ctx.notes.append(f'time budget reached after {it} rounds')
                break
            run_meadows(ctx, scratch)
            run_mne(ctx)
            run_design(ctx)
            run_spm(ctx)
    finally:
        shutil.rmtree(scratch, ignore_errors=True)
