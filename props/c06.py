"""C06  Reported uncertainties and p-values are coherent with the evaluations.

Monitor: result monitor on extract_variances, the test functions and the Result accessors, plus eval_fixed
end to end.
Oracle: scipy's classical t statistics (paired, one-sample one-sided, one-sample two-sided) for fixed
evaluation; contrast identities of the stored covariance with the n/(n-1) factor; dual-bootstrap bounds;
range / symmetry / monotonicity / NaN-aware means / model-permutation equivariance on generated arrays.
"""
import warnings

import numpy as np
import scipy.stats

from rsatoolbox.inference import Result, eval_fixed
from rsatoolbox.model import ModelFixed
from rsatoolbox.rdm import RDMs
from rsatoolbox.util import inference_util as IU
from vlib import gen
from vlib.core import close, maxdiff

LEVEL = 'exploration'
LEVEL_TEXT = ('Seeded exploration of the real variance extraction, test functions and Result accessors: fixed '
              'evaluation is compared end to end with scipy\'s t-tests on the per-subject evaluations, '
              'extract_variances with the contrast identities on generated covariances of every supported shape, '
              'and every test type is checked for range, symmetry, monotonicity and model-permutation '
              'equivariance on generated 2-5 dimensional evaluation arrays with NaN samples. Held on the K '
              'executions observed.')
LEVEL_NOTE = ('Trusted: scipy.stats.sem / ttest_rel / ttest_1samp. Combinations for which the library raises a '
              'documented error (rank-sum tests need 3-d evaluations) are counted as rejected, not as evidence.')
DESIGN_REF = 'DESIGN.md section 4 / C06'
TECHNIQUE = 'runtime result monitor vs scipy t-tests + contrast identities + metamorphic (permutation/monotonicity) checks'
RULE = ('seeded generator over {covariance shape (scalar/vector/matrix/3-stack) x ceiling rows yes/no x n_rdm/n_pattern '
        'given or not x number of models 1..5} and {evaluation dimensionality 2..5 x NaN samples x test type}; '
        'non-trivial: >=2 models or >=3 samples; distinct = configuration signature')
ASSUMPTIONS = ['generated covariances are positive semi-definite', 'n_rdm, n_pattern >= 2 when given']
REQUIRED = ['check:fixed_vs_scipy', 'check:extract_variances', 'check:result_variances', 'check:dtype_invariance', 'check:dual_bootstrap_bounds', 'check:p_range',
            'check:pairwise_symmetry', 'check:t_monotone', 'check:means_sem', 'check:model_permutation']
REACH = ['extract_variances', '_correct_1d', '_dual_bootstrap', 't_tests', 't_test_0', 't_test_nc',
         'bootstrap_pair_tests', 'ranksum_pair_test', 'ranksum_value_test', 'all_tests', 'pair_tests', 'zero_tests',
         'nc_tests', 'Result.get_means', 'Result.get_sem', 'Result.get_ci', 'Result.test_all', 'eval_fixed']
FAIL_KEYS = ['what', 'test', 'shape', 'nc', 'ns', 'dims']
TIME_BUDGET = {'quick': 60, 'thorough': 600}


def dummy_models(n):
    return [ModelFixed(f'm{i}', np.arange(3, dtype=float) + i + 1) for i in range(n)]


# ---------------------------------------------------------------------------
def run_fixed(ctx):
    rng = ctx.rng
    n_model = int(rng.integers(1, 6))
    n_rdm = int(rng.integers(3, 13))
    n_cond = int(rng.integers(4, 8))
    method = gen.pick(rng, ['cosine', 'corr', 'spearman', 'rho-a', 'tau-a'])
    base = gen.rdm_vectors(rng, 1, n_cond, 'pos')[0]
    data = np.array([base * rng.uniform(0.5, 2) + rng.uniform(0.3, 1.5) * rng.standard_normal(base.shape)
                     for _ in range(n_rdm)])
    models = [ModelFixed(f'm{i}', RDMs((base + rng.uniform(0.2, 3) * rng.standard_normal(base.shape)).reshape(1, -1)))
              for i in range(n_model)]
    sig = dict(method=method, n_model=n_model, what='fixed')
    wit = lambda **k: dict(data=data, models=[m.rdm for m in models], method=method, **k)  # noqa: E731
    data_obj = RDMs(data.copy())
    if n_rdm % 3 == 0:
        # the data object is itself a selection (with repeats) from a larger stack: its rows are its RDMs all the same
        pool = np.concatenate([data, data[:2] * 1.5])
        idx = np.concatenate([np.arange(n_rdm - 2), [n_rdm + 1, n_rdm + 1]])
        data = pool[idx]
        data_obj = RDMs(pool.copy()).subsample('index', [int(i) for i in idx])
        sig['derived_data'] = True
    ok, res = ctx.guarded('fixed_vs_scipy', sig, eval_fixed, models, data_obj, method=method, data=wit)
    if not ok:
        return
    ctx.case('fixed_vs_scipy', sig, sample={'n_model': n_model, 'n_rdm': n_rdm, 'method': method})
    ev = res.evaluations[0]          # models x rdms: per-subject evaluations
    if ev.shape != (n_model, n_rdm):
        ctx.fail('fixed_vs_scipy', dict(sig, what='shape'), f'evaluations shape {res.evaluations.shape}', wit())
        return
    if np.any(np.std(ev, axis=1) < 1e-12):
        ctx.count('rejected_degenerate')
        return
    sem = res.get_sem()
    want = scipy.stats.sem(ev, axis=1)
    if not close(sem, want, 1e-9, 1e-12):
        ctx.fail('fixed_vs_scipy', dict(sig, what='sem'), f'get_sem {np.asarray(sem).tolist()} != scipy.stats.sem '
                 f'{want.tolist()}', wit(evaluations=ev))
    if res.dof != n_rdm - 1:
        ctx.fail('fixed_vs_scipy', dict(sig, what='dof'), f'dof {res.dof} != n_rdm-1', wit())
    if not close(res.get_means(), ev.mean(axis=1), 1e-12, 1e-14):
        ctx.fail('fixed_vs_scipy', dict(sig, what='means'), 'get_means != mean over subjects', wit())
    pz = res.test_zero()
    wz = np.array([scipy.stats.ttest_1samp(e, 0, alternative='greater').pvalue for e in ev])
    if not close(pz, wz, 1e-7, 1e-10):
        ctx.fail('fixed_vs_scipy', dict(sig, what='test_zero'), f'test_zero {np.asarray(pz).tolist()} != one-sided '
                 f'one-sample t-test {wz.tolist()}', wit(evaluations=ev))
    nc_low = float(np.mean(res.noise_ceiling[0]))
    pn = res.test_noise()
    wn = np.array([scipy.stats.ttest_1samp(e, nc_low).pvalue for e in ev])
    if not close(pn, wn, 1e-7, 1e-10):
        ctx.fail('fixed_vs_scipy', dict(sig, what='test_noise'), f'test_noise {np.asarray(pn).tolist()} != two-sided '
                 f'one-sample t-test against the lower ceiling {wn.tolist()}', wit(evaluations=ev, nc=nc_low))
    # the pairwise table exists for every number of models (a 1 x 1 table holding 1 for a single model)
    pp1 = np.asarray(res.test_pairwise())
    if pp1.shape != (n_model, n_model) or not np.all(np.diag(pp1) == 1):
        ctx.fail('fixed_vs_scipy', dict(sig, what='pairwise_shape'), f'test_pairwise for {n_model} model(s) has shape '
                 f'{pp1.shape} / diagonal {np.diag(pp1).tolist() if pp1.ndim == 2 else None}', wit(evaluations=ev))
        return
    if n_model > 1:
        pp = res.test_pairwise()
        wp = np.ones((n_model, n_model))
        for i in range(n_model):
            for j in range(n_model):
                if i != j:
                    d = ev[i] - ev[j]
                    wp[i, j] = scipy.stats.ttest_rel(ev[i], ev[j]).pvalue if np.std(d) > 1e-12 else np.nan
        mask = ~np.isnan(wp)
        np.fill_diagonal(mask, False)
        if not close(np.asarray(pp)[mask], wp[mask], 1e-7, 1e-10):
            ctx.fail('fixed_vs_scipy', dict(sig, what='test_pairwise'), f'test_pairwise != paired t-test: maxdiff '
                     f'{maxdiff(np.asarray(pp)[mask], wp[mask])}', wit(evaluations=ev))


# ---------------------------------------------------------------------------
def rand_cov(rng, k):
    a = rng.standard_normal((k, k + 2))
    return a @ a.T / (k + 2) * float(rng.uniform(0.001, 0.1))


def factor(n_rdm, n_pattern):
    if n_rdm is not None and n_pattern is not None:
        n = min(n_rdm, n_pattern)
    elif n_pattern is not None:
        n = n_pattern
    elif n_rdm is not None:
        n = n_rdm
    else:
        return 1.0
    return n / (n - 1)


def contrasts(cov, n_model, nc):
    """model var, pairwise diff var (upper-triangular order), model-vs-ceiling var (n_model x 2)"""
    mv = np.diag(cov)[:n_model].copy()
    dv = []
    for i in range(n_model):
        for j in range(i + 1, n_model):
            dv.append(cov[i, i] + cov[j, j] - 2 * cov[i, j])
    if nc:
        ncv = np.array([[cov[i, i] + cov[n_model + b, n_model + b] - 2 * cov[i, n_model + b] for b in range(2)]
                        for i in range(n_model)])
    else:
        ncv = np.array([[cov[i, i], cov[i, i]] for i in range(n_model)])
    return mv, np.array(dv), ncv


def run_extract(ctx):
    rng = ctx.rng
    n_model = int(rng.integers(1, 6))
    nc = bool(rng.integers(2))
    k = n_model + (2 if nc else 0)
    shape = gen.pick(rng, ['vector', 'matrix', 'stack3', 'scalar'])
    nsk = gen.pick(rng, ['none', 'rdm', 'pattern', 'both'])
    n_rdm = int(rng.integers(2, 30)) if nsk in ('rdm', 'both') else None
    n_pat = int(rng.integers(2, 30)) if nsk in ('pattern', 'both') else None
    sig = dict(shape=shape, nc=nc, ns=nsk, n_model=n_model)
    if shape == 'scalar':
        if n_model != 1 or nc:
            n_model, nc, k = 1, False, 1
            sig.update(nc=False, n_model=1)
        var = np.array(float(rng.uniform(0.001, 0.1)))
        cov = np.array([[float(var)]])
    elif shape == 'vector':
        var = rng.uniform(0.001, 0.1, size=k)
        cov = np.diag(var)
    elif shape == 'matrix':
        cov = rand_cov(rng, k)
        var = cov.copy()
    else:
        # three covariances: both factors, rdm only, pattern only
        c1, c2 = rand_cov(rng, k), rand_cov(rng, k)
        extra = rand_cov(rng, k) * float(gen.pick(rng, [0.0, 0.2, 1.0, 3.0]))
        mode = gen.pick(rng, ['additive', 'free'])
        c0 = c1 + c2 + extra if mode == 'additive' else rand_cov(rng, k) * float(rng.uniform(0.5, 4))
        var = np.array([c0, c1, c2])
    wit = lambda **kk: dict(variance=var, nc_included=nc, n_rdm=n_rdm, n_pattern=n_pat, **kk)  # noqa: E731
    # sample sizes as a caller may hold them: Python ints, numpy integers (len of an array descriptor, a value read from a
    # file) or 0-d arrays -- the numbers count, not their type
    def as_held(n):
        form = int(rng.integers(3))
        return n if n is None or form == 0 else (np.int64(n) if form == 1 else np.array(n))
    ok, out = ctx.guarded('extract_variances', sig, IU.extract_variances, np.array(var, copy=True), nc, as_held(n_rdm), as_held(n_pat),
                          data=wit)
    if not ok:
        return
    mv, dv, ncv = [np.asarray(x, dtype=float) for x in out]
    # the same covariance handed to a Result object: its stored variances are those of the direct extraction
    if shape != 'scalar':
        ev_d = rng.standard_normal((4, n_model))
        nc_d = np.sort(rng.uniform(0.5, 1, size=(2, 4)), axis=0)
        ok_r, res = ctx.guarded('result_variances', sig, Result, dummy_models(n_model), ev_d, 'cosine', 'bootstrap', nc_d,
                                variances=np.array(var, copy=True), dof=3, n_rdm=as_held(n_rdm), n_pattern=as_held(n_pat), data=wit)
        if ok_r:
            ctx.case('result_variances', sig)
            for name, got_r, want_r in (('model_var', res.model_var, mv), ('diff_var', res.diff_var, dv),
                                        ('noise_ceil_var', res.noise_ceil_var, ncv)):
                if not close(np.asarray(got_r, dtype=float), want_r, 1e-12, 1e-15):
                    ctx.fail('result_variances', dict(sig, what=name), f'Result.{name} = {np.asarray(got_r).tolist()} but '
                             f'extract_variances on the same covariance gives {want_r.tolist()}', wit())
    if shape != 'stack3':
        ctx.case('extract_variances', sig, sample={'shape': shape, 'nc_included': nc, 'n_rdm': n_rdm,
                                                   'n_pattern': n_pat, 'n_model': n_model})
        f = factor(n_rdm, n_pat)
        wm, wd, wn = contrasts(cov, n_model, nc)
        if not close(mv.ravel(), wm * f, 1e-10, 1e-14):
            ctx.fail('extract_variances', dict(sig, what='model_var'), f'model variance {mv.tolist()} != diagonal x '
                     f'n/(n-1) = {(wm * f).tolist()}', wit())
        if not close(dv.ravel(), wd * f, 1e-10, 1e-14):
            ctx.fail('extract_variances', dict(sig, what='diff_var'), f'pairwise difference variances {dv.tolist()} '
                     f'!= (var_i + var_j - 2 cov_ij) x n/(n-1) = {(wd * f).tolist()}', wit())
        if ncv.shape != (n_model, 2) or not close(ncv, wn * f, 1e-10, 1e-14):
            ctx.fail('extract_variances', dict(sig, what='noise_ceil_var'), f'model-versus-ceiling variances '
                     f'{ncv.tolist()} != contrast x n/(n-1) = {(wn * f).tolist()}', wit())
        return
    # dual bootstrap
    ctx.case('dual_bootstrap_bounds', sig, sample={'n_model': n_model, 'nc': nc, 'n_rdm': n_rdm, 'n_pattern': n_pat})
    parts = [contrasts(c, n_model, nc) for c in var]
    f_r = n_rdm / (n_rdm - 1) if (n_rdm is not None and n_pat is not None) else 1.0
    f_p = n_pat / (n_pat - 1) if (n_rdm is not None and n_pat is not None) else 1.0
    for name, got, idx in (('model_var', mv, 0), ('diff_var', dv, 1), ('noise_ceil_var', ncv, 2)):
        v0, v1, v2 = parts[0][idx], parts[1][idx], parts[2][idx]
        if got.shape != v0.shape:
            ctx.fail('dual_bootstrap_bounds', dict(sig, what=name + '_shape'), f'{name} shape {got.shape} vs {v0.shape}', wit())
            continue
        if np.any(got > v0 + 1e-12 * (1 + np.abs(v0))):
            ctx.fail('dual_bootstrap_bounds', dict(sig, what=name + '_above_double'), f'{name}: dual-bootstrap estimate '
                     f'{got.tolist()} exceeds the two-factor bootstrap variance {v0.tolist()}', wit())
        for c, nm in ((f_r * v1, 'rdm'), (f_p * v2, 'pattern')):
            bad = (c <= v0) & (got < c - 1e-12 * (1 + np.abs(c)))
            if np.any(bad):
                ctx.fail('dual_bootstrap_bounds', dict(sig, what=name + '_below_single'), f'{name}: dual-bootstrap '
                         f'estimate {got.tolist()} falls below the corrected {nm}-bootstrap variance {c.tolist()} '
                         f'(which is itself below the two-factor variance {v0.tolist()})', wit())
        if n_rdm is not None and n_pat is not None:
            raw = f_r * v1 + f_p * v2 - f_r * f_p * (v0 - v1 - v2)
        else:
            raw = 2 * (v1 + v2) - v0
        want = np.minimum(np.maximum(np.maximum(raw, f_r * v1), f_p * v2), v0)
        if not close(got, want, 1e-9, 1e-14):
            ctx.fail('dual_bootstrap_bounds', dict(sig, what=name + '_formula'), f'{name}: {got.tolist()} != clamped '
                     f'dual-bootstrap combination {want.tolist()}', wit())


# ---------------------------------------------------------------------------
def make_eval(rng, dims, n_model):
    N = int(rng.integers(8, 40))
    extra = tuple(int(rng.integers(1, 4)) for _ in range(dims - 2))
    grid = bool(rng.integers(3) == 0)
    ev = rng.standard_normal((N, n_model) + extra) * 0.2 + rng.uniform(-0.2, 0.6, size=(1, n_model) + (1,) * len(extra))
    if grid:
        ev = np.round(ev, 1)     # ties between models within samples
    n_nan = int(rng.integers(0, 4))
    if n_nan:
        ev[rng.choice(N, size=n_nan, replace=False)] = np.nan
    unbalanced = False
    if dims >= 4 and rng.integers(2):
        unbalanced = True
        # single cross-validation folds that could not be evaluated: NaNs unbalanced over the trailing axes
        for _ in range(int(rng.integers(1, 6))):
            idx = (int(rng.integers(N)), slice(None)) + tuple(int(rng.integers(e)) for e in extra)
            ev[idx] = np.nan
    return ev, grid, n_nan, unbalanced


def run_tests(ctx):
    rng = ctx.rng
    n_model = int(rng.integers(2, 6))
    dims = int(rng.integers(2, 6))
    ev, grid, n_nan, unbalanced = make_eval(rng, dims, n_model)
    N = ev.shape[0]
    per = ev
    with warnings.catch_warnings():
        warnings.simplefilter('ignore')
        while per.ndim > 2:
            per = np.nanmean(per, axis=-1)
    ok_rows = ~np.isnan(per[:, 0])      # a resample counts when at least one of its folds was evaluated
    if ok_rows.sum() < 3:
        ctx.count('rejected_too_few_samples')     # no covariance can be formed
        return
    nc = np.array([rng.uniform(0.1, 0.5, size=N), rng.uniform(0.5, 0.9, size=N)])
    nc[:, ~ok_rows] = np.nan
    full = np.cov(np.concatenate([per[ok_rows].T, nc[:, ok_rows]]))
    n_rdm = int(rng.integers(3, 20))
    n_pat = int(rng.integers(3, 20))
    dof = int(rng.integers(2, 30))
    models = dummy_models(n_model)
    test = gen.pick(rng, ['t-test', 'bootstrap', 'ranksum'])
    sig = dict(test=test, dims=dims, nan=n_nan > 0, ties=grid)
    wit = lambda **k: dict(evaluations=ev, noise_ceiling=nc, variances=full, dof=dof, n_rdm=n_rdm, n_pattern=n_pat,  # noqa
                           test=test, **k)

    def build(e, cov, ncl):
        return Result(dummy_models(e.shape[1]), e.copy(), 'cosine', 'bootstrap', ncl.copy(), variances=cov.copy(),
                      dof=dof, n_rdm=n_rdm, n_pattern=n_pat)
    try:
        res = build(ev, full, nc)
    except Exception as exc:
        ctx.fail('p_range', dict(sig, what='Result_init', exception=type(exc).__name__), repr(exc), wit())
        return
    # means, sem
    ctx.case('means_sem', sig)
    want_mean = np.nanmean(per[ok_rows], axis=0) if ok_rows.any() else None
    gm = res.get_means()
    # (with NaNs unbalanced over the trailing axes several NaN-aware means exist -- mean of fold means, mean of all
    # entries, ...; the value is then not dictated here, only that all tests use the reported one, see below)
    if not unbalanced and not close(gm, want_mean, 1e-10, 1e-12):
        ctx.fail('means_sem', dict(sig, what='means'), f'get_means {np.asarray(gm).tolist()} != NaN-aware mean '
                 f'{want_mean.tolist()}', wit())
    sem = res.get_sem()
    if sem is None or np.any(np.asarray(sem) < 0) or np.any(np.isnan(sem)):
        ctx.fail('means_sem', dict(sig, what='sem_negative'), f'get_sem {sem}', wit())
    f = factor(n_rdm, n_pat)
    if sem is not None and not close(np.asarray(sem) ** 2, np.maximum(np.diag(full)[:n_model] * f, 0), 1e-9, 1e-14):
        ctx.fail('means_sem', dict(sig, what='sem_value'), 'SEM^2 != diagonal of the covariance x n/(n-1)', wit())

    def run_all(r):
        if test == 'ranksum' and (r.evaluations.ndim != 3 or r.evaluations.shape[2] < 2):
            return None   # documented: rank-sum tests need bootstrap x models x (>= 2) subjects
        return r.test_pairwise(test), r.test_zero(test), r.test_noise(test)
    try:
        out = run_all(res)
    except AssertionError:
        out = None
    except Exception as exc:
        ctx.fail('p_range', dict(sig, what='raised', exception=type(exc).__name__), f'{type(exc).__name__}: {exc}', wit())
        return
    if out is None:
        ctx.count('rejected_ranksum_needs_3d')
        return
    pp, pz, pn = [np.asarray(x, dtype=float) for x in out]
    try:
        ta = res.test_all(test)
        if not all(close(np.asarray(a, dtype=float), b, 1e-12, 1e-14) for a, b in zip(ta, (pp, pz, pn))):
            ctx.fail('p_range', dict(sig, what='test_all_disagrees'), 'test_all differs from the single tests', wit())
    except Exception as exc:
        ctx.fail('p_range', dict(sig, what='test_all_raised', exception=type(exc).__name__), repr(exc), wit())
    ctx.case('p_range', sig, sample={'test': test, 'dims': dims, 'N': N, 'n_model': n_model, 'nan_samples': n_nan})
    for name, p in (('pairwise', pp), ('zero', pz), ('noise', pn)):
        q = p[~np.isnan(p)]
        if np.any(q < 0) or np.any(q > 1):
            ctx.fail('p_range', dict(sig, what=name + '_out_of_range'), f'{test} {name} p-values outside [0,1]: '
                     f'min {q.min()!r} max {q.max()!r}', wit(p=p))
    ctx.case('pairwise_symmetry', sig)
    if pp.shape[:2] != (n_model, n_model) or not close(pp, np.swapaxes(pp, 0, 1), 1e-12, 1e-14) or \
            not np.all(pp[np.arange(n_model), np.arange(n_model)] == 1):
        ctx.fail('pairwise_symmetry', dict(sig, what='asymmetric_or_diagonal'), f'{test} pairwise p-values not '
                 f'symmetric with unit diagonal', wit(p=pp))
    # model permutation equivariance
    perm = rng.permutation(n_model)
    if np.array_equal(perm, np.arange(n_model)):
        perm = np.roll(perm, 1)
    idx = np.concatenate([perm, [n_model, n_model + 1]])
    ev_p = ev[:, perm]
    res_p = build(ev_p, full[np.ix_(idx, idx)], nc)
    try:
        out_p = run_all(res_p)
    except Exception as exc:
        ctx.fail('model_permutation', dict(sig, what='raised', exception=type(exc).__name__), repr(exc), wit(perm=perm))
        return
    ctx.case('model_permutation', sig)
    ppp, pzp, pnp = [np.asarray(x, dtype=float) for x in out_p]
    tol = (1e-9, 1e-12)
    bad = []
    if not close(ppp, pp[np.ix_(perm, perm)], *tol):
        bad.append('pairwise')
    if not close(pzp, pz[perm], *tol):
        bad.append('zero')
    if not close(pnp, pn[perm], *tol):
        bad.append('noise')
    if not close(res_p.get_means(), np.asarray(gm)[perm], *tol):
        bad.append('means')
    if not close(res_p.get_sem(), np.asarray(sem)[perm], *tol):
        bad.append('sem')
    cp, c0 = res_p.get_ci(0.9, test_type='t-test'), res.get_ci(0.9, test_type='t-test')
    if not (close(cp[0], np.asarray(c0[0])[perm], *tol) and close(cp[1], np.asarray(c0[1])[perm], *tol)):
        bad.append('ci')
    if bad:
        ctx.fail('model_permutation', dict(sig, what='not_equivariant:' + '+'.join(bad)), f'{test}: permuting the '
                 f'models by {perm.tolist()} does not permute {bad} accordingly', wit(perm=perm))
    # monotonicity of the t-tests: larger effect at equal variance never gives a larger p
    if test == 't-test':
        ctx.case('t_monotone', sig)
        j = int(rng.integers(n_model))
        delta = float(rng.uniform(0.01, 0.5))
        ev2 = ev.copy()
        ev2[:, j] += delta
        res2 = build(ev2, full, nc)
        pz2 = np.asarray(res2.test_zero('t-test'))
        if pz2[j] > pz[j] + 1e-12:
            ctx.fail('t_monotone', dict(sig, what='zero'), f'raising model {j} by {delta} raised its p against zero '
                     f'from {pz[j]!r} to {pz2[j]!r}', wit(j=j, delta=delta))
        # pairwise: widen the difference between j and another model
        k = (j + 1) % n_model
        m = np.asarray(gm)
        ev3 = ev.copy()
        ev3[:, j] += delta if m[j] >= m[k] else -delta
        pp3 = np.asarray(build(ev3, full, nc).test_pairwise('t-test'))
        # (with unbalanced NaNs the sign of a small difference can depend on which NaN-aware average is taken, so
        # "widening" is only well defined for the balanced patterns)
        if not unbalanced and pp3[j, k] > pp[j, k] + 1e-12:
            ctx.fail('t_monotone', dict(sig, what='pairwise'), f'widening the difference between models {j},{k} raised '
                     f'the pairwise p from {pp[j, k]!r} to {pp3[j, k]!r}', wit(j=j, k=k, delta=delta))
        ncl = float(np.nanmean(nc[0]))
        ev4 = ev.copy()
        ev4[:, j] += delta if m[j] >= ncl else -delta
        pn4 = np.asarray(build(ev4, full, nc).test_noise('t-test'))
        if pn4[j] > pn[j] + 1e-12:
            ctx.fail('t_monotone', dict(sig, what='noise'), f'moving model {j} away from the ceiling raised its p from '
                     f'{pn[j]!r} to {pn4[j]!r}', wit(j=j, delta=delta))


def run_dtype(ctx):
    """the against-zero t-test does not depend on the floating-point width the evaluations are stored in: tiny but
    real variances (standard errors of 1e-5) must not be floored by the precision of float32"""
    rng = ctx.rng
    n_model = int(rng.integers(1, 5))
    n = int(rng.integers(5, 20))
    se = 10.0 ** rng.uniform(-6, -4, size=n_model)             # standard errors of the mean
    mean = se * rng.uniform(0.5, 6, size=n_model)              # t between 0.5 and 6
    ev64 = (mean + rng.standard_normal((n, n_model)) * 1e-9).astype(np.float64)
    var = se ** 2
    dof = n - 1
    sig = dict(test='t-test', dims='float32')
    wit = lambda **k: dict(evaluations=ev64, variances=var, dof=dof, **k)  # noqa: E731
    ok, p64 = ctx.guarded('dtype_invariance', sig, IU.t_test_0, ev64.copy(), var.copy(), dof, data=wit)
    ok2, p32 = ctx.guarded('dtype_invariance', sig, IU.t_test_0, ev64.astype(np.float32), var.copy(), dof, data=wit)
    if not (ok and ok2):
        return
    ctx.case('dtype_invariance', sig)
    want = 1 - scipy.stats.t.cdf(ev64.mean(axis=0) / se, dof)
    if not close(np.asarray(p64, dtype=float), want, 1e-6, 1e-9):
        ctx.fail('dtype_invariance', dict(sig, what='float64_vs_scipy'), f'p {np.asarray(p64).tolist()} != one-sided t-test '
                 f'{want.tolist()}', wit())
    elif not close(np.asarray(p32, dtype=float), want, 1e-3, 1e-6):
        ctx.fail('dtype_invariance', dict(sig, what='float32_differs'), f'float32 evaluations give p {np.asarray(p32).tolist()}, '
                 f'float64 {np.asarray(p64).tolist()}', wit())
    # ... nor on the width the VARIANCES are stored in (variances of 1e-12 ... 1e-8 are far above what float32 can hold)
    ok3, pv32 = ctx.guarded('dtype_invariance', dict(sig, dims='float32_variances'), IU.t_test_0, ev64.copy(),
                            var.astype(np.float32), dof, data=wit)
    if ok3:
        ctx.case('dtype_invariance', dict(sig, dims='float32_variances'))
        if not close(np.asarray(pv32, dtype=float), want, 1e-3, 1e-6):
            ctx.fail('dtype_invariance', dict(sig, what='float32_variances_differ'), f'float32 variances give p '
                     f'{np.asarray(pv32).tolist()}, float64 {np.asarray(p64).tolist()}', wit())


def run_extreme_bootstrap(ctx):
    """all samples on one side: the bootstrap p-values must still be probabilities"""
    rng = ctx.rng
    n_model = int(rng.integers(1, 4))
    N = int(rng.integers(5, 30))
    side = gen.pick(rng, ['all_negative', 'all_below_ceiling', 'all_positive'])
    ev = np.abs(rng.standard_normal((N, n_model))) * 0.1 + 0.05
    if side == 'all_negative':
        ev = -ev
    nc = np.array([np.full(N, 0.9 if side != 'all_positive' else -0.5), np.full(N, 0.95)])
    cov = np.cov(np.concatenate([ev.T, nc + 0.01 * rng.standard_normal(nc.shape)]))
    sig = dict(test='bootstrap', dims=2, extreme=side)
    wit = lambda **k: dict(evaluations=ev, noise_ceiling=nc, **k)  # noqa: E731
    res = Result(dummy_models(n_model), ev.copy(), 'cosine', 'bootstrap', nc.copy(), variances=cov, dof=5,
                 n_rdm=6, n_pattern=6)
    ctx.case('p_range', sig)
    for name, fn in (('zero', res.test_zero), ('noise', res.test_noise)):
        try:
            p = np.asarray(fn('bootstrap'), dtype=float)
        except Exception as exc:
            ctx.fail('p_range', dict(sig, what=name + '_raised', exception=type(exc).__name__),
                     f'bootstrap test against {name} raised {type(exc).__name__}: {exc}', wit())
            continue
        if np.any(p < 0) or np.any(p > 1):
            ctx.fail('p_range', dict(sig, what=name + '_out_of_range'), f'bootstrap p-values against {name} outside '
                     f'[0,1]: {p.tolist()} ({side}, N={N})', wit(p=p))


def unrelated_library_activity(ctx):
    """the process does other things between two analyses -- here comparisons of other RDMs with measures that share
    helper functions with the inference code (contrast matrices, vector/matrix conversion).  None of it may leave a
    trace in later results; it is never judged itself (C03 does that)"""
    from rsatoolbox.rdm import compare
    rng = ctx.rng
    n = int(rng.integers(3, 8))
    try:
        a = RDMs(gen.rdm_vectors(rng, 2, n, 'eucl'))
        b = RDMs(gen.rdm_vectors(rng, 1, n, 'eucl'))
        with warnings.catch_warnings():
            warnings.simplefilter('ignore')
            for m in ('neg_riem_dist', 'bures', 'cosine_cov'):
                compare(a, b, method=m)
        ctx.count('unrelated_calls_interleaved')
    except Exception as exc:   # noqa
        ctx.notes.append(f'unrelated activity raised {exc!r}')


def run(ctx):
    n = ctx.n(200, 4000)
    for it in range(n):
        if ctx.out_of_time():
            ctx.notes.append(f'time budget reached after {it} rounds')
            break
        if it % 3 == 0:
            unrelated_library_activity(ctx)
        run_extract(ctx)
        run_extract(ctx)
        run_tests(ctx)
        if it % 4 == 0:
            run_fixed(ctx)
        if it % 5 == 0:
            run_extreme_bootstrap(ctx)
        if it % 5 == 1:
            run_dtype(ctx)
