"""C04  Each stored evaluation is the direct comparison of prediction and resampled data.

Monitor: event trace at the module boundary of rsatoolbox.inference.evaluate (every bootstrap_sample*,
compare, boot_noise_ceiling, cv_noise_ceiling, crossval, sets_* call with arguments and results), a tap on
numpy's global RNG, recording fitters.  Data RDMs carry unique ids so every sample is identified by content.
Oracle: offline re-derivation of every stored evaluation from the trace with reference subsampling and
reference measures; NaN-marking; covariance / dof / noise-ceiling bookkeeping; seed replay.
"""
import copy

import numpy as np

import rsatoolbox.inference.evaluate as E
from rsatoolbox.model import ModelFixed, ModelInterpolate, ModelSelect, ModelWeighted, fit_regress
from rsatoolbox.rdm import RDMs
from vlib import gen, ref
from vlib.core import close, maxdiff
from vlib.monitor import RngTap, Trace
from props.c03 import ref_value

LEVEL = 'exploration'
LEVEL_TEXT = ('Seeded exploration of the seven evaluation routines with an event trace at the module boundary: '
              'for every stored evaluation the checker finds, in the recorded history, the resample / fold it '
              'belongs to and the prediction that was compared with it, and recomputes the value with reference '
              'subsampling and reference measures at the supplied parameters or at parameters re-fitted on that '
              'fold\'s training set; NaN marking, covariances, degrees of freedom, per-resample noise ceilings and '
              'exact reproducibility under the same seed are checked on the same runs. Held on the K executions '
              '(random histories) observed.')
LEVEL_NOTE = ('Random histories are those numpy\'s global RNG produces for the swept seeds: observed through the '
              'tap, never enumerated. Sample identity relies on uid descriptors (their faithfulness is C09). The '
              'cross-validated routines use deterministic fitters so that re-fitting reproduces theta.')
DESIGN_REF = 'DESIGN.md section 4 / C04'
TECHNIQUE = 'offline trace checker over recorded call/return events + RNG tap + seed replay'
RULE = ('seeded generator over {routine x method x model mix (fixed/weighted/select/interpolate) x grouping of rdms '
        'and conditions x N x k_pattern,k_rdm x n_cv x boot_type x boot_noise_ceil x use_correction}; each routine '
        'call is a case with its stored evaluations re-derived; non-trivial: >=1 non-NaN resample; distinct = '
        'configuration signature')
ASSUMPTIONS = ['deterministic closed-form fitters in the cross-validated routines (fit_regress, fit_select, '
               'fit_interpolate)', 'non-constant data RDMs']
ROUTINES = ['eval_fixed', 'eval_bootstrap', 'eval_bootstrap_pattern', 'eval_bootstrap_rdm', 'crossval',
            'bootstrap_crossval', 'eval_dual_bootstrap', 'eval_dual_bootstrap_random']
REQUIRED = ['check:' + r for r in ROUTINES] + ['check:seed_replay', 'stored_evaluations_rederived',
                                              'nan_samples_seen', 'rng_draws_observed', 'events_recorded',
                                              'folds_refitted', 'check:too_small_folds', 'cross_process_replays']
REACH = ROUTINES + ['_internal_cv', '_concat_sampling', 'input_check_model', 'Result.__init__', 'bootstrap_sample',
                    'sets_k_fold', 'sets_random']
FAIL_KEYS = ['routine', 'what', 'boot_type', 'grouped']
INCONCLUSIVE_IF = ['untraceable_history']
TIME_BUDGET = {'quick': 100, 'thorough': 900}
SHARDS = {'quick': 1, 'thorough': 16}

PATCH = ['bootstrap_sample', 'bootstrap_sample_rdm', 'bootstrap_sample_pattern', 'compare', 'boot_noise_ceiling',
         'cv_noise_ceiling', 'crossval', 'sets_k_fold', 'sets_random']


class Traced:
    """install Trace wrappers on the module globals of rsatoolbox.inference.evaluate"""

    def __init__(self):
        self.tr = Trace()
        self.orig = {}

    def __enter__(self):
        for name in PATCH:
            self.orig[name] = getattr(E, name)
            setattr(E, name, self.tr.wrap(name, self.orig[name]))
        return self.tr

    def __exit__(self, *exc):
        for name, f in self.orig.items():
            setattr(E, name, f)
        return False


# ---------------------------------------------------------------------------
def make_world(rng, ties_ok=True, n_cond=None):
    n_rdm = int(rng.integers(3, 8))
    n_cond = int(rng.integers(5, 9)) if n_cond is None else n_cond
    rgk = gen.pick(rng, ['singleton', 'singleton', 'pairs', 'few'])
    pgk = gen.pick(rng, ['singleton', 'singleton', 'pairs'])
    rg = gen.group_labels(rng, n_rdm, rgk)
    pg = gen.group_labels(rng, n_cond, pgk)
    base = gen.rdm_vectors(rng, 1, n_cond, 'pos')[0]
    data = np.array([base * rng.uniform(0.5, 2) + rng.uniform(0.2, 1.0) * rng.standard_normal(base.shape)
                     for _ in range(n_rdm)])
    if rng.integers(4) == 0 and ties_ok:
        data = np.round(data * 2) / 2   # ties
        data[data == 0] = 0.5           # no exact zeros: an all-zero resample has no cosine (measure undefined)
    rd = {'uid': [int(v) for v in 50 + rng.permutation(n_rdm)], 'grp': [int(v) + 3 for v in rg]}
    pd = {'puid': [int(v) for v in 100 + np.arange(n_cond)], 'pgrp': [int(v) * 2 + 1 for v in pg]}
    n_basis = 3
    basis = np.array([base * rng.uniform(0.3, 1.5) + rng.uniform(0.3, 1.5) * rng.standard_normal(base.shape) ** 2
                      for _ in range(n_basis)])
    # descriptors are handed to the library as lists or as numpy arrays (condition numbers as an increasing integer
    # array are the most ordinary descriptor there is)
    return dict(n_rdm=n_rdm, n_cond=n_cond, rgk=rgk, pgk=pgk, data=data, rd=rd, pd=pd, basis=basis,
                cont=gen.pick(rng, gen.CONTAINERS))


def descs(w, which):
    return {k: gen.wrap(list(v), w.get('cont', 'list')) for k, v in w[which].items()}


def data_obj(w):
    return RDMs(w['data'].copy(), rdm_descriptors=descs(w, 'rd'), pattern_descriptors=descs(w, 'pd'),
                dissimilarity_measure='euclidean')


def make_models(rng, w, for_cv):
    """list of (model, theta_or_None, fitter_or_None)"""
    def mrd(v):
        return RDMs(np.atleast_2d(v).copy(), pattern_descriptors=descs(w, 'pd'))
    kinds = [gen.pick(rng, ['fixed', 'weighted', 'select', 'interpolate']) for _ in range(int(rng.integers(1, 4)))]
    if 'fixed' not in kinds and rng.integers(2):
        kinds.append('fixed')
    out = []
    for i, k in enumerate(kinds):
        if k == 'fixed':
            v = w['basis'][i % 3] + 0.1 * i
            out.append((ModelFixed(f'fix{i}', mrd(v)), None, None))
        elif k == 'weighted':
            th = rng.uniform(0.1, 1, size=3)
            out.append((ModelWeighted(f'wei{i}', mrd(w['basis'])), th, fit_regress))
        elif k == 'select':
            out.append((ModelSelect(f'sel{i}', mrd(w['basis'])), int(rng.integers(3)), None))
        else:
            th = np.zeros(3)
            j = int(rng.integers(2))
            th[j], th[j + 1] = 0.4, 0.6
            out.append((ModelInterpolate(f'int{i}', mrd(w['basis'])), th, None))
    if len(out) > 1 and rng.integers(4) == 0:
        for m, _, _ in out:       # models are identified by position; nothing requires their names to differ
            m.name = 'model'
    return out


def full_prediction(model, theta):
    if isinstance(model, ModelFixed):
        return np.asarray(model.predict(), dtype=float).ravel()
    return np.asarray(model.predict(theta), dtype=float).ravel()


def positions(w, obj):
    """positions (in the source condition order) of the conditions of obj, in obj's order"""
    pos = {u: i for i, u in enumerate(w['pd']['puid'])}
    return [pos[int(u)] for u in obj.pattern_descriptors['puid']]


def sample_ok(ctx, check, sig, w, obj, wit):
    """content of a sample / test set equals the source values of the RDMs and conditions it names"""
    ridx = {u: i for i, u in enumerate(w['rd']['uid'])}
    pos = positions(w, obj)
    try:
        want = np.array([ref.subsample_vector(w['data'][ridx[int(u)]], w['n_cond'], pos)
                         for u in obj.rdm_descriptors['uid']])
    except KeyError as exc:
        ctx.fail(check, dict(sig, what='foreign_rdm'), f'object names unknown RDM {exc}', wit())
        return False
    if want.shape != obj.dissimilarities.shape or not np.array_equal(want, obj.dissimilarities, equal_nan=True):
        ctx.fail(check, dict(sig, what='sample_content'), 'data object handed to compare does not hold the source '
                 'values of the RDMs / conditions it names', wit())
        return False
    return True


def ref_mean_similarity(method, pred_vec, sample_vecs):
    keep = ~np.isnan(pred_vec)
    n_sub = int(round((1 + np.sqrt(1 + 8 * len(pred_vec))) / 2))
    if keep.sum() < 2 or np.ptp(pred_vec[keep]) < 1e-12 or any(np.ptp(s[keep]) < 1e-12 for s in sample_vecs):
        return None   # a constant RDM: the measures are undefined, nothing to decide
    vals = []
    for s in sample_vecs:
        if method in ('cosine_cov', 'corr_cov'):
            v = ref.v_matrix(n_sub, None)[np.ix_(keep, keep)]
            f = ref.whitened_cosine if method == 'cosine_cov' else ref.whitened_corr
            vals.append(f(pred_vec[keep], s[keep], v))
        else:
            vals.append(ref_value(method, pred_vec[keep], s[keep], None, None))
    return float(np.mean(vals))


def check_compare_event(ctx, check, sig, w, ev, model, theta, method, wit):
    """one traced compare(pred, data, method) call: prediction = model at theta restricted to exactly the data's
    conditions; returns mean similarity recomputed by reference (or None on failure)"""
    pred, dat = ev['call']['args'][0], ev['call']['args'][1]
    if len(ev['call']['args']) > 2 and ev['call']['args'][2] != method or \
            ev['call']['kwargs'].get('method', method) != method:
        ctx.fail(check, dict(sig, what='wrong_method'), 'compare called with another method', wit())
        return None
    if not sample_ok(ctx, check, sig, w, dat, wit):
        return None
    pos = positions(w, dat)
    want_pred = ref.subsample_vector(full_prediction(model, theta), w['n_cond'], pos)
    got_pred = np.asarray(pred.dissimilarities if hasattr(pred, 'dissimilarities') else pred, dtype=float)
    if got_pred.shape[0] != 1 or not close(got_pred[0], want_pred, 1e-12, 1e-13):
        ctx.fail(check, dict(sig, what='prediction_mismatch'), f'the prediction compared with this resample is not '
                 f'model {model.name} at theta {theta} restricted to the resample\'s conditions '
                 f'(uids {[int(u) for u in dat.pattern_descriptors["puid"]]}): maxdiff '
                 f'{maxdiff(got_pred[0], want_pred) if got_pred.shape[1:] == want_pred.shape else "shape"}', wit())
        return None
    tol = 1e-7 if method.endswith('_cov') else 1e-9
    m_ref = ref_mean_similarity(method, want_pred, dat.dissimilarities)
    m_lib = float(np.mean(ev['out']))
    if m_ref is None:
        return m_lib
    if not close(m_lib, m_ref, tol, tol):
        ctx.fail(check, dict(sig, what='similarity_value'), f'mean similarity {m_lib!r} != reference {m_ref!r}', wit())
        return None
    return m_lib


def unique_groups(w, which):
    return len(set(w['rd']['grp'])) if which == 'rdm' else len(set(w['pd']['pgrp']))


def cov_rows(mat):
    """np.cov of rows (variables x samples), safe for a single variable"""
    return np.atleast_2d(np.cov(mat))


# ---------------------------------------------------------------------------
def run_bootstrap_like(ctx, routine, tap):
    rng = ctx.rng
    method = gen.pick(rng, ['cosine', 'corr', 'spearman', 'rho-a', 'tau-a', 'cosine_cov'])
    # correlation of a constant (tied, tiny) resample is undefined: tied data only for the other measures
    w = make_world(rng, ties_ok=not method.startswith('corr'))
    # one subject's RDM is flat (all dissimilarities equal, e.g. nothing was discriminable): tau-b of a constant is
    # undefined, every resample holding that subject evaluates to NaN and is left out of the variances
    flat = routine == 'eval_bootstrap_rdm' and rng.integers(4) == 0
    if flat:
        method = 'tau-b'
        w['data'][int(rng.integers(w['n_rdm']))] = 0.0
    specs = make_models(rng, w, False)
    models = [s[0] for s in specs]
    thetas = [s[1] for s in specs]
    N = int(rng.integers(4, 13))
    grouped = bool(rng.integers(2))
    rdesc, pdesc = ('grp', 'pgrp') if grouped else ('uid', 'puid')
    own_index = False
    if grouped and rng.integers(3) == 0:
        # the subject grouping lives in a user-owned rdm descriptor called 'index' (the name the routines use by default;
        # a data set that is itself a bootstrap sample has such a non-unique index): groups are groups, whatever the name
        w['rd']['index'] = list(w['rd']['grp'])
        rdesc, own_index = 'index', True
    bnc = bool(rng.integers(2)) or flat
    seed = int(rng.integers(2 ** 31))
    sig = dict(routine=routine, method=method, grouped=grouped, rdm_grouping=w['rgk'], pattern_grouping=w['pgk'], own_index=own_index,
               boot_noise_ceil=bnc, models='+'.join(sorted(set(type(m).__name__[5:] for m in models))))
    wit = lambda **k: dict(routine=routine, data=w['data'], rd=w['rd'], pd=w['pd'], method=method, N=N, seed=seed,  # noqa
                           rdm_descriptor=rdesc, pattern_descriptor=pdesc, thetas=thetas, **k)
    # the per-model parameters are handed over as a list or as another sequence (a tuple): one entry per model either way
    kw = dict(theta=tuple(thetas) if len(models) >= 2 and rng.integers(3) == 0 else thetas, method=method, N=N,
              boot_noise_ceil=bnc)
    if routine == 'eval_bootstrap':
        fn, kw2 = E.eval_bootstrap, dict(pattern_descriptor=pdesc, rdm_descriptor=rdesc)
    elif routine == 'eval_bootstrap_pattern':
        fn, kw2 = E.eval_bootstrap_pattern, dict(pattern_descriptor=pdesc, rdm_descriptor=rdesc)
    else:
        fn, kw2 = E.eval_bootstrap_rdm, dict(rdm_descriptor=rdesc)
    kw.update(kw2)
    if own_index and rng.integers(2):
        kw.pop('rdm_descriptor')        # 'index' is the documented default

    def go():
        np.random.seed(seed)
        tap.take()
        with Traced() as tr:
            res = fn(models, data_obj(w), **kw)
        return res, tr, tap.take()
    tr_orig = {n: getattr(E, n) for n in PATCH}
    try:
        res, tr, draws = go()
    except Exception as exc:
        import traceback
        ctx.fail(routine, dict(sig, what='raised', exception=type(exc).__name__),
                 f'{type(exc).__name__}: {exc}\n{traceback.format_exc(limit=5)}', wit())
        return
    ctx.count('events_recorded', len(tr.events))
    ctx.count('rng_draws_observed', len(draws))
    ctx.case(routine, sig, sample={'routine': routine, 'N': N, 'method': method, 'models': [m.name for m in models],
                                   'rdm_descriptor': rdesc, 'pattern_descriptor': pdesc})
    M = len(models)
    ev = res.evaluations
    if ev.shape != (N, M):
        ctx.fail(routine, dict(sig, what='shape'), f'evaluations shape {ev.shape}', wit())
        return
    bname = {'eval_bootstrap': 'bootstrap_sample', 'eval_bootstrap_pattern': 'bootstrap_sample_pattern',
             'eval_bootstrap_rdm': 'bootstrap_sample_rdm'}[routine]
    # split the event log by bootstrap draws
    chunks, cur = [], None
    for e in tr.events:
        if e['ev'] != 'return':
            continue
        if e['fn'] == bname:
            cur = {'boot': e, 'compare': [], 'nc': []}
            chunks.append(cur)
        elif cur is not None and e['fn'] == 'compare':
            cur['compare'].append(e)
        elif cur is not None and e['fn'] == 'boot_noise_ceiling':
            cur['nc'].append(e)
    if len(chunks) != N:
        ctx.fail(routine, dict(sig, what='number_of_resamples'), f'{len(chunks)} resamples drawn for N={N}', wit())
        return
    n_pgroups = unique_groups(w, 'pattern') if grouped else w['n_cond']
    ok_rows = []
    for i, ch in enumerate(chunks):
        out = ch['boot']['out']
        sample = out[0]
        pidx = out[2] if routine == 'eval_bootstrap' else (out[1] if routine == 'eval_bootstrap_pattern' else None)
        too_small = pidx is not None and len(set(ref._key(v) for v in pidx)) < 3
        if too_small:
            ctx.count('nan_samples_seen')
            if not np.all(np.isnan(ev[i])):
                ctx.fail(routine, dict(sig, what='small_sample_not_nan'), f'resample {i} has fewer than 3 distinct '
                         f'condition groups but its evaluations are {ev[i].tolist()}', wit(i=i))
                return
            continue
        if flat and not np.all(np.isfinite(ev[i])):
            ctx.count('nan_samples_seen')
            continue
        ok_rows.append(i)
        if not sample_ok(ctx, routine, sig, w, sample, lambda **k: wit(i=i, **k)):
            return
        # value-based oracle (decides): stored evaluation == mean similarity between the model's prediction
        # restricted to exactly this resample's conditions and this resample's data RDMs
        pos = positions(w, sample)
        tol = 1e-7 if method.endswith('_cov') else 1e-9
        for j in range(M):
            pred = ref.subsample_vector(full_prediction(models[j], thetas[j]), w['n_cond'], pos)
            want = ref_mean_similarity(method, pred, sample.dissimilarities)
            if want is None:
                ctx.count('degenerate_skipped')
                continue
            ctx.count('stored_evaluations_rederived')
            if not close(ev[i, j], want, tol, tol):
                detail = ''
                if len(ch['compare']) == M:   # event-level diagnosis of what was compared with what
                    ce = ch['compare'][j]
                    if ce['call']['args'][1] is not sample:
                        detail = ' (compare was given another object than the resample of this iteration)'
                    else:
                        gp = np.asarray(getattr(ce['call']['args'][0], 'dissimilarities', ce['call']['args'][0]))
                        if gp.shape != (1, len(pred)) or not close(gp[0], pred, 1e-12, 1e-13):
                            detail = ' (the prediction handed to compare is not the model restricted to the ' \
                                     'resample\'s conditions)'
                ctx.fail(routine, dict(sig, what='stored_value'), f'evaluations[{i},{j}] = {ev[i, j]!r}; the mean '
                         f'similarity of model {models[j].name} restricted to the conditions of resample {i} with the '
                         f'RDMs of that resample is {want!r}{detail}', wit(i=i, j=j))
                return
        if bnc:
            want_nc = np.asarray(tr_orig['boot_noise_ceiling'](sample, method=method, rdm_descriptor=rdesc), dtype=float)
            if not close(np.asarray(res.noise_ceiling)[:, i], want_nc, 1e-12, 1e-13):
                ctx.fail(routine, dict(sig, what='ceiling_value'), f'noise_ceiling[:, {i}] = '
                         f'{np.asarray(res.noise_ceiling)[:, i].tolist()} is not the noise ceiling of resample {i} '
                         f'{want_nc.tolist()}', wit(i=i))
                return
    # covariance over exactly the usable resamples
    if len(ok_rows) >= 2:
        mat = ev[ok_rows].T
        if bnc:
            mat = np.concatenate([mat, np.asarray(res.noise_ceiling)[:, ok_rows]])
        want = cov_rows(mat)
        got = np.atleast_2d(res.variances)
        if got.shape[0] < M or not close(got[:M, :M], want[:M, :M], 1e-9, 1e-14):
            ctx.fail(routine, dict(sig, what='covariance'), f'model block of the covariance is not the sample covariance '
                     f'over the {len(ok_rows)} usable resamples (maxdiff '
                     f'{maxdiff(got[:M, :M], want[:M, :M]) if got.shape[0] >= M else "shape"})', wit())
        elif bnc and (got.shape != want.shape or not close(got, want, 1e-9, 1e-14)):
            ctx.fail(routine, dict(sig, what='covariance_ceiling_rows'), f'noise ceilings were bootstrapped with the '
                     f'evaluations but the stored covariance has shape {got.shape} instead of the joint covariance '
                     f'of evaluations and ceilings {want.shape}', wit())
    # dof = number of resampled units - 1
    n_r = unique_groups(w, 'rdm') if grouped else w['n_rdm']
    want_dof = {'eval_bootstrap': min(n_r, n_pgroups), 'eval_bootstrap_pattern': n_pgroups,
                'eval_bootstrap_rdm': n_r}[routine] - 1
    if res.dof != want_dof:
        ctx.fail(routine, dict(sig, what='dof'), f'dof {res.dof}, but {want_dof + 1} units (descriptor groups) are '
                 f'resampled', wit())
    # seed replay
    try:
        res2, tr2, draws2 = go()
    except Exception as exc:
        ctx.fail('seed_replay', dict(sig, what='raised'), repr(exc), wit())
        return
    ctx.case('seed_replay', sig)
    same = (np.array_equal(res.evaluations, res2.evaluations, equal_nan=True)
            and np.array_equal(np.asarray(res.noise_ceiling), np.asarray(res2.noise_ceiling), equal_nan=True)
            and np.array_equal(np.asarray(res.variances), np.asarray(res2.variances), equal_nan=True)
            and len(draws) == len(draws2)
            and all(np.array_equal(np.asarray(a.get('out', a.get('after'))), np.asarray(b.get('out', b.get('after'))))
                    for a, b in zip(draws, draws2)))
    if not same:
        ctx.fail('seed_replay', sig, 'rerun with the same seed does not reproduce the result / draw log', wit())


def run_fixed(ctx):
    rng = ctx.rng
    w = make_world(rng)
    specs = make_models(rng, w, False)
    models, thetas = [s[0] for s in specs], [s[1] for s in specs]
    method = gen.pick(rng, ['cosine', 'corr', 'spearman', 'rho-a', 'tau-a', 'cosine_cov'])
    sig = dict(routine='eval_fixed', method=method, models='+'.join(sorted(set(type(m).__name__[5:] for m in models))))
    wit = lambda **k: dict(routine='eval_fixed', data=w['data'], method=method, thetas=thetas, **k)  # noqa: E731
    try:
        with Traced() as tr:
            res = E.eval_fixed(models, data_obj(w), theta=thetas, method=method)
    except Exception as exc:
        ctx.fail('eval_fixed', dict(sig, what='raised', exception=type(exc).__name__), repr(exc), wit())
        return
    ctx.count('events_recorded', len(tr.events))
    ctx.case('eval_fixed', sig)
    M, n = len(models), w['n_rdm']
    if res.evaluations.shape != (1, M, n):
        ctx.fail('eval_fixed', dict(sig, what='shape'), f'{res.evaluations.shape}', wit())
        return
    tol = 1e-7 if method.endswith('_cov') else 1e-9
    for j, m in enumerate(models):
        p = full_prediction(m, thetas[j])
        for r in range(n):
            want = ref_mean_similarity(method, p, [w['data'][r]])
            if want is None:
                ctx.count('degenerate_skipped')
                continue
            ctx.count('stored_evaluations_rederived')
            if not close(res.evaluations[0, j, r], want, tol, tol):
                ctx.fail('eval_fixed', dict(sig, what='stored_value'), f'evaluations[0,{j},{r}] = '
                         f'{res.evaluations[0, j, r]!r}, similarity of model {j} with data RDM {r} is {want!r}', wit())
                return
    evm = res.evaluations[0]
    v0, v1 = cov_rows(evm) * (n - 1) / n / n, cov_rows(evm) / n
    got = np.atleast_2d(res.variances)
    if not (close(got, v0, 1e-9, 1e-15) or close(got, v1, 1e-9, 1e-15)):
        ctx.fail('eval_fixed', dict(sig, what='covariance'), 'variances are not the covariance across RDMs divided by '
                 'their number', wit())
    if res.dof != n - 1:
        ctx.fail('eval_fixed', dict(sig, what='dof'), f'dof {res.dof} != {n - 1}', wit())
    ncs = tr.returns('boot_noise_ceiling')
    if len(ncs) != 1 or not np.array_equal(np.asarray(res.noise_ceiling, dtype=float), np.asarray(ncs[0]['out'], dtype=float)):
        ctx.fail('eval_fixed', dict(sig, what='ceiling_value'), 'noise ceiling is not the one of the data', wit())
    elif not sample_ok(ctx, 'eval_fixed', sig, w, ncs[0]['call']['args'][0], wit):
        return
    # a sweep over parameter values reuses the model objects and the caller's own parameter arrays, edited in place:
    # the stored evaluations are those of the parameters as they are at the time of the call
    flex = [j for j, t in enumerate(thetas) if isinstance(t, np.ndarray) and t.size > 1 and not np.array_equal(t, t[::-1])]
    if flex:
        th2 = thetas            # the very arrays of the call above
        try:
            for j in flex:
                th2[j][:] = th2[j][::-1].copy()
            res2 = E.eval_fixed(models, data_obj(w), theta=th2, method=method)
        except Exception as exc:
            ctx.fail('eval_fixed', dict(sig, what='raised_on_parameter_sweep', exception=type(exc).__name__), repr(exc), wit())
            return
        ctx.case('eval_fixed', dict(sig, parameter_sweep=True))
        for j in flex:
            p = full_prediction(models[j], th2[j])
            for r in range(n):
                want = ref_mean_similarity(method, p, [w['data'][r]])
                if want is not None and not close(res2.evaluations[0, j, r], want, tol, tol):
                    ctx.fail('eval_fixed', dict(sig, what='stale_parameters'), f'after the caller changed the entries of its '
                             f'parameter array in place, evaluations[0,{j},{r}] = {res2.evaluations[0, j, r]!r}; the '
                             f'similarity at the parameters now in the array is {want!r}', wit(theta_now=th2[j]))
                    return
        for j in flex:          # back to the original values for what follows
            th2[j][:] = th2[j][::-1].copy()
    # the data object lives on: the user edits it in place (new values written into the array, conditions reordered)
    # and evaluates again.  Result and noise ceiling must be those of the object as it is NOW, i.e. equal to what a
    # freshly built object with the same content gives
    d = data_obj(w)
    try:
        E.eval_fixed(models, d, theta=thetas, method=method)
        how = gen.pick(rng, ['write_values', 'reorder', 'sort_by'])
        if how == 'write_values':
            d.dissimilarities[:] = w['data'] * rng.uniform(0.3, 3, size=(n, 1)) + rng.uniform(0.1, 2, size=w['data'].shape)
        elif how == 'reorder':
            d.reorder([int(i) for i in rng.permutation(w['n_cond'])])
        else:
            d.sort_by(puid=[int(v) for v in rng.permutation(np.asarray(w['pd']['puid']))])
        again = E.eval_fixed(models, d, theta=thetas, method=method)
        fresh = RDMs(np.array(d.dissimilarities, copy=True), dissimilarity_measure='euclidean',
                     rdm_descriptors={k: gen.wrap(list(v), w['cont']) for k, v in d.rdm_descriptors.items()},
                     pattern_descriptors={k: gen.wrap(list(v), w['cont']) for k, v in d.pattern_descriptors.items()})
        ref = E.eval_fixed(models, fresh, theta=thetas, method=method)
    except Exception as exc:
        ctx.fail('eval_fixed', dict(sig, what='raised_on_reused_object', exception=type(exc).__name__), repr(exc), wit())
        return
    ctx.case('eval_fixed', dict(sig, reused_object=how))
    if not (close(np.asarray(again.evaluations), np.asarray(ref.evaluations), 1e-12, 1e-12)
            and close(np.asarray(again.noise_ceiling, dtype=float), np.asarray(ref.noise_ceiling, dtype=float), 1e-12, 1e-12)
            and close(np.atleast_2d(again.variances), np.atleast_2d(ref.variances), 1e-12, 1e-15)):
        ctx.fail('eval_fixed', dict(sig, what='history_dependent'), f'after an in-place {how} of the data object a second '
                 f'eval_fixed differs from eval_fixed on a freshly built object with the same content: noise ceiling '
                 f'{np.asarray(again.noise_ceiling).tolist()} vs {np.asarray(ref.noise_ceiling).tolist()}', wit(how=how))


# ---------------------------------------------------------------------------
def refit_fold(ctx, check, sig, w, models, fitters, method, pdesc, train, test, evals_f, wit):
    """stored fold scores == mean similarity of the prediction at parameters re-fitted on this fold's training set
    only, restricted to the fold's test conditions, with the fold's test RDMs"""
    if train[0].n_rdm == 0 or test[0].n_rdm == 0 or train[0].n_cond <= 2 or test[0].n_cond <= 2:
        if not np.all(np.isnan(evals_f)):
            ctx.fail(check, dict(sig, what='small_fold_not_nan'), 'fold too small to evaluate is not NaN', wit())
            return False
        ctx.count('nan_folds_seen')
        return True
    if not (sample_ok(ctx, check, sig, w, test[0], wit) and sample_ok(ctx, check, sig, w, train[0], wit)):
        return False
    label_pos = {}
    for i, lab in enumerate(w['pd'][pdesc]):
        label_pos.setdefault(lab, []).append(i)
    tol = 1e-7 if method.endswith('_cov') else 1e-9
    for j, m in enumerate(models):
        theta = fitters[j](m, train[0], method=method, pattern_idx=train[1], pattern_descriptor=pdesc)
        ctx.count('folds_refitted')
        # test conditions with multiplicity: test[1] lists group labels (repeated for bootstrap copies)
        pos_expected = sorted(p for lab in test[1] for p in label_pos[ref._key(lab)])
        pos_obj = positions(w, test[0])
        if sorted(pos_obj) != pos_expected:
            ctx.fail(check, dict(sig, what='test_conditions'), f'test object holds conditions {sorted(pos_obj)} but the '
                     f'advertised test pattern indices expand to {pos_expected}', wit(model=j))
            return False
        pred = ref.subsample_vector(full_prediction(m, theta), w['n_cond'], pos_obj)
        want = ref_mean_similarity(method, pred, test[0].dissimilarities)
        if want is None:
            ctx.count('degenerate_skipped')
            continue
        ctx.count('stored_evaluations_rederived')
        if not close(evals_f[j], want, tol, tol):
            ctx.fail(check, dict(sig, what='stored_value'), f'fold score of model {m.name} is {evals_f[j]!r}; the '
                     f'prediction at parameters fitted on this fold\'s training set, restricted to the test '
                     f'conditions, scores {want!r}', wit(model=j, theta=theta))
            return False
    return True


def det_fitters(specs):
    out = []
    for m, _, f in specs:
        out.append(f if f is not None else m.default_fitter)
    return out


def run_crossval(ctx, tap, two_group=False):
    rng = ctx.rng
    w = make_world(rng, ties_ok=False, n_cond=8 if two_group else None)
    if two_group:   # four condition groups of two conditions each, in random positions
        w['pd']['pgrp'] = [int(v) * 2 + 1 for v in rng.permutation([0, 0, 1, 1, 2, 2, 3, 3])]
    specs = make_models(rng, w, True)
    models = [s[0] for s in specs]
    fit_arg = [s[2] for s in specs]
    fitters = det_fitters(specs)
    has_weighted = any(isinstance(m, ModelWeighted) for m in models)
    method = gen.pick(rng, ['cosine', 'corr', 'cosine_cov'] if has_weighted else
                      ['cosine', 'corr', 'spearman', 'rho-a', 'cosine_cov'])   # fit_regress: cosine/corr(_cov) only
    grouped = bool(rng.integers(2)) or two_group
    rdesc, pdesc = ('grp', 'pgrp') if grouped else ('uid', 'puid')
    n_rg = unique_groups(w, 'rdm') if grouped else w['n_rdm']
    n_pg = unique_groups(w, 'pattern') if grouped else w['n_cond']
    k_r = int(rng.integers(1, min(3, n_rg) + 1))
    # documented minimum: 3 condition groups per fold (default_k_pattern: 'minimum number of patterns is 3*k')
    k_p = int(rng.integers(1, max(1, min(3, n_pg // 3)) + 1))
    if grouped and n_pg >= 4 and n_pg < w['n_cond'] and (two_group or rng.integers(2)):
        # an explicit k_pattern below that minimum: folds of two descriptor GROUPS that hold more than two conditions
        # are evaluable (the NaN rule counts conditions, not groups) -- seeded change C04-ac
        k_p = n_pg // 2
        ctx.count('two_group_folds_requested')
    if k_r == 1 and k_p == 1:
        k_p = 2 if n_pg >= 6 else 1
        k_r = 2 if k_p == 1 else 1
    if k_r > n_rg:
        return
    seed = int(rng.integers(2 ** 31))
    sig = dict(routine='crossval', method=method, grouped=grouped, k=f'{k_r}x{k_p}',
               models='+'.join(sorted(set(type(m).__name__[5:] for m in models))))
    wit = lambda **k: dict(routine='crossval', data=w['data'], rd=w['rd'], pd=w['pd'], method=method, k_rdm=k_r,  # noqa
                           k_pattern=k_p, seed=seed, **k)
    d = data_obj(w)
    np.random.seed(seed)
    try:
        train_set, test_set, ceil_set = E.sets_k_fold(d, k_rdm=k_r, k_pattern=k_p, random=True,
                                                      pattern_descriptor=pdesc, rdm_descriptor=rdesc)
        res = E.crossval(models, d, train_set, test_set, ceil_set=ceil_set, method=method, fitter=fit_arg,
                         pattern_descriptor=pdesc)
    except np.linalg.LinAlgError:
        ctx.count('rejected_singular_training_set')
        return
    except Exception as exc:
        import traceback
        ctx.fail('crossval', dict(sig, what='raised', exception=type(exc).__name__),
                 f'{type(exc).__name__}: {exc} {traceback.format_exc(limit=4)}', wit())
        return
    ctx.case('crossval', sig, sample={'k_rdm': k_r, 'k_pattern': k_p, 'method': method})
    if res.evaluations.shape != (1, len(models), len(test_set)):
        ctx.fail('crossval', dict(sig, what='shape'), f'{res.evaluations.shape}', wit())
        return
    for f in range(len(test_set)):
        try:
            if not refit_fold(ctx, 'crossval', sig, w, models, fitters, method, pdesc, train_set[f], test_set[f],
                              res.evaluations[0, :, f], lambda **k: wit(fold=f, **k)):
                return
        except np.linalg.LinAlgError:
            ctx.count('rejected_singular_training_set')
            return


def run_too_small_folds(ctx):
    """test folds with exactly two conditions hold a single dissimilarity: every similarity is +-1 whatever the model, so
    such folds are 'too small to evaluate' -- their stored evaluations are NaN, not numbers"""
    from rsatoolbox.inference import crossvalsets as CS
    rng = ctx.rng
    n_cond = int(gen.pick(rng, [6, 8]))
    n_rdm = int(rng.integers(3, 6))
    data = gen.rdm_vectors(rng, n_rdm, n_cond, 'pos')
    pd = {'puid': [int(v) for v in 100 + np.arange(n_cond)], 'pair': [int(i) // 2 for i in range(n_cond)]}
    d = RDMs(data.copy(), rdm_descriptors={'uid': list(range(n_rdm))}, pattern_descriptors=copy.deepcopy(pd))
    models = [ModelFixed(f'f{i}', RDMs(gen.rdm_vectors(rng, 1, n_cond, 'pos'), pattern_descriptors=copy.deepcopy(pd)))
              for i in range(2)]
    how = gen.pick(rng, ['leave_one_pair_out', 'k_fold_pairs'])
    method = gen.pick(rng, ['cosine', 'corr'])
    sig = dict(routine='crossval', method=method, folds=how, what='two_condition_folds')
    wit = lambda **k: dict(routine='crossval', data=data, pd=pd, method=method, folds=how, **k)  # noqa: E731
    try:
        if how == 'leave_one_pair_out':
            train_set, test_set, ceil_set = CS.sets_leave_one_out_pattern(d, 'pair')
            pdesc = 'pair'
        else:
            train_set, test_set, ceil_set = CS.sets_k_fold_pattern(d, 'puid', k=n_cond // 2, random=False)
            pdesc = 'puid'
        if not all(t[0].n_cond == 2 for t in test_set):
            ctx.count('rejected_fold_sizes')
            return
        res = E.crossval(models, d, train_set, test_set, ceil_set=ceil_set, method=method, pattern_descriptor=pdesc,
                         calc_noise_ceil=False)
    except Exception as exc:
        ctx.fail('too_small_folds', dict(sig, exception=type(exc).__name__), f'{type(exc).__name__}: {exc}', wit())
        return
    ctx.case('too_small_folds', sig)
    ev = np.asarray(res.evaluations, dtype=float)
    if not np.all(np.isnan(ev)):
        ctx.fail('too_small_folds', sig, f'test folds of two conditions were evaluated (values {ev.ravel()[:6].tolist()}) '
                 f'instead of being marked NaN', wit())


def run_boot_cv(ctx, routine, tap, few=False):
    rng = ctx.rng
    # few: four conditions, no cross-validation -- about one draw in three holds fewer than three distinct conditions and is
    # marked NaN; the variances are those of the draws that remain
    w = make_world(rng, ties_ok=False, n_cond=4 if few else None)
    specs = make_models(rng, w, True)
    models = [s[0] for s in specs]
    fit_arg = [s[2] for s in specs]
    fitters = det_fitters(specs)
    has_weighted = any(isinstance(m, ModelWeighted) for m in models)
    method = gen.pick(rng, ['cosine', 'corr'] if has_weighted else ['cosine', 'corr', 'rho-a'])
    grouped = bool(rng.integers(3) == 0) and not few
    rdesc, pdesc = ('grp', 'pgrp') if grouped else ('uid', 'puid')
    n_rg = unique_groups(w, 'rdm') if grouped else w['n_rdm']
    n_pg = unique_groups(w, 'pattern') if grouped else w['n_cond']
    N = int(rng.integers(3, 8)) if not few else 14
    n_cv = int(rng.integers(1, 4))
    boot_type = gen.pick(rng, ['both', 'pattern', 'rdm']) if routine != 'eval_dual_bootstrap' else 'both'
    use_corr = bool(n_cv > 1 and rng.integers(2))
    seed = int(rng.integers(2 ** 31))
    # the number of repetitions as a Python int or as a (possibly unsigned) numpy integer
    kw = dict(method=method, fitter=fit_arg, N=N, n_cv=[n_cv, np.uint8(n_cv), np.int64(n_cv)][int(rng.integers(3))],
              pattern_descriptor=pdesc, rdm_descriptor=rdesc, use_correction=use_corr)
    if routine == 'eval_dual_bootstrap_random':
        # test sets need >= 3 condition groups (or no split over conditions at all)
        n_p = 3 if (n_pg >= 7 and rng.integers(2)) else 0
        n_r = int(rng.integers(0, max(1, min(3, n_rg - 1))))
        if n_p == 0 and n_r == 0:
            if n_rg >= 3:
                n_r = 1
            else:
                return
        kw.update(n_pattern=n_p, n_rdm=n_r, boot_type=boot_type)
        fn = E.eval_dual_bootstrap_random
        k_r = k_p = None
    else:
        k_r = int(rng.integers(1, min(2, n_rg) + 1)) if not few else 1
        k_p = int(rng.integers(1, 3)) if n_pg >= 6 else 1
        kw.update(k_pattern=k_p, k_rdm=k_r)
        if routine == 'bootstrap_crossval':
            kw['boot_type'] = boot_type
            fn = E.bootstrap_crossval
        else:
            fn = E.eval_dual_bootstrap
    sig = dict(routine=routine, method=method, grouped=grouped, boot_type=boot_type, n_cv=n_cv, correction=use_corr,
               k=f'{k_r}x{k_p}', models='+'.join(sorted(set(type(m).__name__[5:] for m in models))))
    wit = lambda **k: dict(routine=routine, data=w['data'], rd=w['rd'], pd=w['pd'], seed=seed,  # noqa: E731
                           kwargs={a: b for a, b in kw.items() if a != 'fitter'}, **k)

    # the leading arguments by position in their documented order, or everything by keyword
    posnames = ['method', 'fitter', 'k_pattern', 'k_rdm'] if routine == 'bootstrap_crossval' and (N + n_cv) % 2 else []
    posargs = [kw[a] for a in posnames]
    kwrest = {a: b for a, b in kw.items() if a not in posnames}

    def go():
        np.random.seed(seed)
        tap.take()
        with Traced() as tr:
            res = fn(models, data_obj(w), *posargs, **kwrest)
        return res, tr, tap.take()
    try:
        res, tr, draws = go()
    except np.linalg.LinAlgError:
        ctx.count('rejected_singular_training_set')
        return
    except Exception as exc:
        import traceback
        ctx.fail(routine, dict(sig, what='raised', exception=type(exc).__name__),
                 f'{type(exc).__name__}: {exc} {traceback.format_exc(limit=5)}', wit())
        return
    ctx.count('events_recorded', len(tr.events))
    ctx.count('rng_draws_observed', len(draws))
    ctx.case(routine, sig, sample={'routine': routine, 'N': N, 'n_cv': n_cv, 'boot_type': boot_type,
                                   'k_rdm': k_r, 'k_pattern': k_p})
    M = len(models)
    ev = np.asarray(res.evaluations)
    # chunk the log per bootstrap draw
    bnames = ('bootstrap_sample', 'bootstrap_sample_rdm', 'bootstrap_sample_pattern')
    chunks, cur = [], None
    for e in tr.events:
        if e['ev'] != 'return':
            continue
        if e['fn'] in bnames:
            cur = {'boot': e, 'cv': [], 'nc': [], 'sets': []}
            chunks.append(cur)
        elif cur is not None and e['fn'] == 'crossval':
            cur['cv'].append(e)
        elif cur is not None and e['fn'] in ('cv_noise_ceiling', 'boot_noise_ceiling'):
            cur['nc'].append(e)
        elif cur is not None and e['fn'] in ('sets_k_fold', 'sets_random'):
            cur['sets'].append(e)
    if len(chunks) != N:
        ctx.fail(routine, dict(sig, what='number_of_resamples'), f'{len(chunks)} resamples for N={N}', wit())
        return
    if routine == 'eval_dual_bootstrap' and k_r == 1 and k_p == 1:
        n_cv = 1   # documented: without cross-validation there is a single run per resample
    per_sample = 3 * n_cv if routine == 'eval_dual_bootstrap' else (1 if routine == 'eval_dual_bootstrap_random' else n_cv)
    ok_rows = []
    for i, ch in enumerate(chunks):
        flat = ev[i].reshape(M, -1)
        if not ch['cv'] and not np.all(np.isnan(flat)):
            ctx.count('untraceable_history')
            ctx.notes.append(f'{routine}: evaluated resample {i} without any traced cross-validation run')
            return
        if not ch['cv']:
            ctx.count('nan_samples_seen')
            if not np.all(np.isnan(flat)):
                ctx.fail(routine, dict(sig, what='small_sample_not_nan'), f'resample {i} was not cross-validated but '
                         f'its evaluations are not all NaN', wit(i=i))
                return
            if not np.all(np.isnan(np.asarray(res.noise_ceiling)[:, i])):
                ctx.fail(routine, dict(sig, what='small_sample_ceiling_not_nan'), f'resample {i}: ceilings not NaN', wit(i=i))
                return
            continue
        ok_rows.append(i)
        if len(ch['cv']) != per_sample:
            # the history does not have the shape this checker understands (e.g. after a refactoring):
            # the run is inconclusive for this routine, never a violation
            ctx.count('untraceable_history')
            ctx.notes.append(f'{routine}: resample {i} has {len(ch["cv"])} traced cross-validation runs, expected '
                             f'{per_sample}')
            return
        for c, ce in enumerate(ch['cv']):
            a = ce['call']['args']
            kwc = ce['call']['kwargs']
            tr_set, te_set = a[2], a[3]
            cres = ce['out']
            # the stored block equals what this cross-validation run returned
            if routine == 'bootstrap_crossval':
                stored = ev[i, :, :, c]
            elif routine == 'eval_dual_bootstrap':
                stored = ev[i, :, :, c // 3, c % 3]
            else:
                stored = ev[i, :, :]
            if not np.array_equal(np.asarray(stored), np.asarray(cres.evaluations[0]), equal_nan=True):
                ctx.fail(routine, dict(sig, what='stored_block'), f'evaluations of resample {i}, run {c} differ from '
                         f'the result of that cross-validation run', wit(i=i, run=c))
                return
            # the folds split the dimension(s) the caller asked to split: k_pattern folds over conditions, k_rdm over RDMs
            if k_p is not None and routine == 'bootstrap_crossval':
                samp = ch['boot']['out'][0]
                n_pg_s = len(set(ref._key(v) for v in samp.pattern_descriptors[pdesc]))
                for f in range(len(te_set)):
                    split_p = len(set(ref._key(v) for v in te_set[f][1])) < n_pg_s
                    split_r = len(set(ref._key(v) for v in te_set[f][0].rdm_descriptors[rdesc])) < \
                        len(set(ref._key(v) for v in samp.rdm_descriptors[rdesc]))
                    ctx.count('fold_dimensions_checked')
                    if (split_p, split_r) != (k_p > 1, k_r > 1) and te_set[f][0].n_rdm > 0:
                        ctx.fail(routine, dict(sig, what='fold_numbers'), f'k_pattern={k_p}, k_rdm={k_r} were requested, but '
                                 f'test fold {f} of resample {i} holds {len(set(ref._key(v) for v in te_set[f][1]))} of '
                                 f'{n_pg_s} condition groups and {te_set[f][0].n_rdm} of {samp.n_rdm} RDMs',
                                 wit(i=i, run=c, fold=f))
                        return
            # ... and that run is the direct comparison at parameters fitted on each fold's training set
            for f in range(len(te_set)):
                try:
                    if not refit_fold(ctx, routine, sig, w, models, fitters, kwc.get('method', method),
                                      kwc.get('pattern_descriptor', pdesc), tr_set[f], te_set[f],
                                      np.asarray(cres.evaluations[0])[:, f], lambda **k: wit(i=i, run=c, fold=f, **k)):
                        return
                except np.linalg.LinAlgError:
                    ctx.count('rejected_singular_training_set')
                    return
        # ceilings of the same resample
        nc_arr = np.asarray(res.noise_ceiling)
        if routine in ('bootstrap_crossval', 'eval_dual_bootstrap'):
            for c, ne in enumerate(ch['nc'][:per_sample]):
                got = nc_arr[:, i, c] if routine == 'bootstrap_crossval' else nc_arr[:, i, c // 3, c % 3]
                if not np.array_equal(got, np.asarray(ne['out'], dtype=float)):
                    ctx.fail(routine, dict(sig, what='ceiling_value'), f'noise ceiling of resample {i}, run {c} is not '
                             f'the one computed on that resample', wit(i=i, run=c))
                    return
                # ... and it is the ceiling of THIS run's folds: the call that produced it was handed the generator's
                # ceiling sets (the training RDMs) as predictors and the generator's test sets as targets -- compared by
                # content (which RDMs each fold's object holds), fold by fold; with a split over RDMs the two differ
                if len(ch['sets']) == len(ch['cv']) == per_sample and ne['fn'] == 'cv_noise_ceiling':
                    g_train, g_test, g_ceil = ch['sets'][c]['out']
                    na, nk = ne['call']['args'], ne['call']['kwargs']
                    a_ceil = nk.get('ceil_set', na[1] if len(na) > 1 else None)
                    a_test = nk.get('test_set', na[2] if len(na) > 2 else None)
                    if g_ceil is not None and a_ceil is not None and a_test is not None:
                        def uids(fold_list):
                            return [sorted(int(v) for v in f[0].rdm_descriptors['uid']) for f in fold_list]
                        ctx.count('ceiling_calls_checked_for_fold_roles')
                        if uids(a_ceil) != uids(g_ceil) or uids(a_test) != uids(g_test):
                            ctx.fail(routine, dict(sig, what='ceiling_of_other_folds'), f'resample {i}, run {c}: the noise '
                                     f'ceiling was computed with predictor folds holding RDMs {uids(a_ceil)} and target folds '
                                     f'{uids(a_test)}; the generator\'s ceiling sets hold {uids(g_ceil)}, its test sets '
                                     f'{uids(g_test)}', wit(i=i, run=c))
                            return
        elif ch['nc']:
            o = np.asarray(ch['nc'][0]['out'], dtype=float)
            if not (np.array_equal(nc_arr[0, i], np.broadcast_to(o[0], nc_arr[0, i].shape), equal_nan=True) and
                    np.array_equal(nc_arr[1, i], np.broadcast_to(o[1], nc_arr[1, i].shape), equal_nan=True)):
                ctx.fail(routine, dict(sig, what='ceiling_value'), f'noise ceiling of resample {i} differs', wit(i=i))
                return
    # covariance over exactly the usable resamples (documented formulas)
    if len(ok_rows) >= 2 and routine != 'eval_dual_bootstrap':
        nc_arr = np.asarray(res.noise_ceiling)
        e_ok = ev[ok_rows]
        if routine == 'bootstrap_crossval':
            ev_mean = e_ok.mean(axis=-1).mean(axis=-1)            # samples x models
            ev_1 = e_ok.mean(axis=-2)                             # samples x models x n_cv
        else:
            ev_mean = e_ok.mean(axis=-1)
            ev_1 = e_ok
        nc_mean = nc_arr[:, ok_rows].mean(axis=-1)
        var_mean = cov_rows(np.concatenate([ev_mean.T, nc_mean]))
        if use_corr and n_cv > 1:
            v1 = np.mean([cov_rows(np.concatenate([ev_1[:, :, r].T, nc_arr[:, ok_rows][:, :, r]])) for r in range(n_cv)],
                         axis=0)
            want = (n_cv * var_mean - v1) / (n_cv - 1)
        else:
            want = var_mean
        got = np.atleast_2d(res.variances)
        if got.shape != want.shape or not close(got, want, 1e-8, 1e-14):
            ctx.fail(routine, dict(sig, what='covariance'), f'covariance is not the documented '
                     f'{"n_cv-corrected " if use_corr and n_cv > 1 else ""}sample covariance over the {len(ok_rows)} '
                     f'usable resamples', wit())
    if len(ok_rows) >= 2 and routine == 'eval_dual_bootstrap':
        # three covariances (both / rdm / pattern bootstrap), each over exactly the usable resamples
        nc_arr = np.asarray(res.noise_ceiling)               # 2 x N x n_cv x 3
        e_ok = ev[ok_rows]                                    # ok x M x folds x n_cv x 3
        got = np.asarray(res.variances)
        want = []
        for t in range(3):
            ev_mean = e_ok[..., t].mean(axis=-1).mean(axis=-1)            # ok x M
            nc_mean = nc_arr[:, ok_rows][..., t].mean(axis=-1)            # 2 x ok
            var_mean = cov_rows(np.concatenate([ev_mean.T, nc_mean]))
            if use_corr and n_cv > 1:
                ev_1 = e_ok[..., t].mean(axis=-2)                         # ok x M x n_cv
                v1 = np.mean([cov_rows(np.concatenate([ev_1[:, :, r].T, nc_arr[:, ok_rows][:, :, r, t]]))
                              for r in range(n_cv)], axis=0)
                want.append((n_cv * var_mean - v1) / (n_cv - 1))
            else:
                want.append(var_mean)
        want = np.array(want)
        if got.shape != want.shape or not close(got, want, 1e-8, 1e-14):
            ctx.fail(routine, dict(sig, what='covariance'), f'the three covariances are not the documented '
                     f'{"n_cv-corrected " if use_corr and n_cv > 1 else ""}sample covariances over the {len(ok_rows)} '
                     f'usable resamples (of {N}): maxdiff '
                     f'{maxdiff(got, want) if got.shape == want.shape else (got.shape, want.shape)}', wit())
    # dof
    units = {'both': min(n_rg, n_pg), 'pattern': n_pg, 'rdm': n_rg}[boot_type]
    if res.dof != units - 1:
        ctx.fail(routine, dict(sig, what='dof'), f'dof {res.dof}, but {units} units (descriptor groups) are resampled '
                 f'(boot_type {boot_type})', wit())
    # seed replay
    try:
        res2, tr2, draws2 = go()
    except Exception as exc:
        ctx.fail('seed_replay', dict(sig, what='raised'), repr(exc), wit())
        return
    ctx.case('seed_replay', sig)
    if not (np.array_equal(res.evaluations, res2.evaluations, equal_nan=True)
            and np.array_equal(np.asarray(res.noise_ceiling), np.asarray(res2.noise_ceiling), equal_nan=True)
            and np.array_equal(np.asarray(res.variances), np.asarray(res2.variances), equal_nan=True)
            and len(draws) == len(draws2)):
        ctx.fail('seed_replay', sig, 'rerun with the same seed does not reproduce the result', wit())


REPLAY_SCRIPT = r'''
import sys, json, hashlib
import numpy as np
from rsatoolbox.rdm import RDMs
from rsatoolbox.model import ModelFixed
from rsatoolbox.inference import eval_bootstrap_pattern, eval_bootstrap, bootstrap_crossval
cfg = json.loads(sys.argv[1])
rng = np.random.default_rng(cfg["gen_seed"])
n_rdm, n_cond = cfg["n_rdm"], cfg["n_cond"]
names = cfg["names"]
data = RDMs(rng.uniform(0.1, 3, size=(n_rdm, n_cond * (n_cond - 1) // 2)),
            rdm_descriptors={"subj": ["s%d" % i for i in range(n_rdm)]}, pattern_descriptors={"name": names})
models = [ModelFixed("m%d" % i, RDMs(rng.uniform(0.1, 3, size=(1, n_cond * (n_cond - 1) // 2)),
                                     pattern_descriptors={"name": names})) for i in range(2)]
out = []
for fn, kw in ((eval_bootstrap_pattern, dict(pattern_descriptor="name")),
               (eval_bootstrap, dict(pattern_descriptor="name", rdm_descriptor="subj")),
               (bootstrap_crossval, dict(pattern_descriptor="name", rdm_descriptor="subj", k_pattern=2, k_rdm=2))):
    np.random.seed(cfg["seed"])
    r = fn(models, data, method="cosine", N=cfg["N"], **kw)
    out.append(hashlib.sha256(np.ascontiguousarray(np.nan_to_num(r.evaluations, nan=-7.0)).tobytes()
                              + np.ascontiguousarray(np.nan_to_num(np.asarray(r.noise_ceiling, dtype=float), nan=-7.0)).tobytes()
                              ).hexdigest())
print(json.dumps(out))
'''


def run_cross_process_replay(ctx):
    """a rerun with the same random seed reproduces the result exactly -- also in another interpreter session (another
    string-hash randomisation), with conditions and RDMs grouped by string-valued descriptors"""
    import json
    import subprocess
    import sys
    from vlib import env
    rng = ctx.rng
    n_cond = int(rng.integers(7, 10))
    names = [str(v) for v in rng.choice(['apple', 'bird', 'cat', 'dog', 'egg', 'fig', 'goat', 'hat', 'ink', 'jar', 'kite',
                                         'lamp'], size=n_cond, replace=False)]
    cfg = dict(gen_seed=int(rng.integers(2 ** 31)), seed=int(rng.integers(2 ** 31)), n_rdm=int(rng.integers(4, 7)),
               n_cond=n_cond, names=names, N=6)
    sig = dict(routine='cross_process_replay')
    outs = []
    for hs in ('1', '2', '3'):
        e = env.child_env({'PYTHONHASHSEED': hs})
        try:
            r = subprocess.run([sys.executable, '-c', REPLAY_SCRIPT, json.dumps(cfg)], env=e, capture_output=True, text=True,
                               timeout=300)
        except subprocess.TimeoutExpired:
            ctx.count('replay_subprocess_timeout')
            return
        if r.returncode != 0:
            ctx.notes.append('cross-process replay script failed: ' + r.stderr[-300:])
            ctx.count('replay_subprocess_failed')
            return
        outs.append(json.loads(r.stdout.strip().splitlines()[-1]))
    ctx.case('seed_replay', sig)
    ctx.count('cross_process_replays')
    for k, routine in enumerate(('eval_bootstrap_pattern', 'eval_bootstrap', 'bootstrap_crossval')):
        if len({o[k] for o in outs}) != 1:
            ctx.fail('seed_replay', dict(sig, what='differs_across_processes', routine_replayed=routine),
                     f'{routine}: the same seed gives different evaluations / noise ceilings in different interpreter '
                     f'sessions (PYTHONHASHSEED 1, 2, 3) when conditions are grouped by a string descriptor',
                     dict(cfg=cfg, digests=[o[k] for o in outs]))


def run(ctx):
    n = ctx.n(24, 60)
    if ctx.shard == 0:
        run_cross_process_replay(ctx)
    for _ in range(ctx.n(6, 10)):
        run_too_small_folds(ctx)
    with RngTap() as tap:
        for it in range(n):
            if ctx.out_of_time():
                ctx.notes.append(f'time budget reached after {it} rounds')
                break
            run_fixed(ctx)
            for r in ('eval_bootstrap', 'eval_bootstrap_pattern', 'eval_bootstrap_rdm'):
                run_bootstrap_like(ctx, r, tap)
            run_crossval(ctx, tap)
            run_crossval(ctx, tap, two_group=bool(it % 2))
            run_boot_cv(ctx, 'bootstrap_crossval', tap)
            run_boot_cv(ctx, 'eval_dual_bootstrap_random', tap)
            if it % 2 == 0:
                run_boot_cv(ctx, 'eval_dual_bootstrap', tap)
            else:
                run_boot_cv(ctx, 'eval_dual_bootstrap', tap, few=True)
