"""C12  Value-returning operations neither modify nor alias their inputs.

Monitor: mutation/alias sanitizer.  Public callables of rsatoolbox.rdm/.data/.model/.inference/.util are
discovered by introspection; an argument synthesiser builds fresh arguments for each call; every argument is
fingerprinted before/after the call (M-fp), the call is repeated with all argument arrays read-only (M-ro, an
in-place write raises inside the library), results are checked for shared memory with arguments, and documented
in-place operations / raw array writes are applied to result and source to show they cannot affect each other.
Oracle: fingerprint equality.
"""
import copy
import importlib
import inspect
import os
import pkgutil
import shutil
import tempfile
import traceback

import numpy as np

import rsatoolbox
from rsatoolbox.data import Dataset, TemporalDataset
from rsatoolbox.data.base import DatasetBase
from rsatoolbox.inference import Result
from rsatoolbox.model import Model, ModelFixed, ModelInterpolate, ModelSelect, ModelWeighted
from rsatoolbox.rdm import RDMs
from vlib import gen
from vlib.fingerprint import arrays_of, fingerprint, freeze, shares_memory

LEVEL = 'exploration'
LEVEL_TEXT = ('Seeded exploration of every public callable of the rdm, data, model, inference and util packages '
              'that the argument synthesiser can call (discovered by introspection, so new functions are picked up; '
              'the ones it cannot call are listed as unreached): arguments are fingerprinted before and after, the '
              'call is repeated on read-only arrays, result/argument memory sharing is inspected and the documented '
              'in-place operations and raw array writes are applied to result and source to show independence. Held '
              'on the K calls observed.')
LEVEL_NOTE = ('Not flagged (would be stricter than the property): accessors whose contract is to expose internal state '
              '(get_vectors, to_dict, get_noise_ceil, ModelFixed/ModelSelect predictions), self of in-place methods, '
              'the library-managed index descriptors, mere identity sharing of descriptor containers that no '
              'documented in-place operation can turn into interference.')
DESIGN_REF = 'DESIGN.md section 4 / C12'
TECHNIQUE = 'mutation/alias sanitizer: argument fingerprints + read-only arrays + shared-memory scan + post-hoc in-place ops'
RULE = ('introspected public callables x 2-3 synthesised argument sets each (descriptor containers list/ndarray, '
        'NaN-bearing RDMs, temporal and flat datasets, all model classes); a case = one monitored call; distinct = '
        'callable x argument variant')
ASSUMPTIONS = ['callables the synthesiser cannot call are reported under coverage.unreached and weaken the claim']
REQUIRED = ['check:arguments_unchanged', 'check:readonly_arguments', 'check:result_independent',
            'check:inplace_on_result_leaves_source', 'check:inplace_on_source_leaves_result', 'callables_reached',
            'suite_calls_monitored']
INCONCLUSIVE_IF = ['suite_unavailable']
REACH = ['RDMs.subset', 'RDMs.subsample_pattern', 'sqrt_transform', 'geodesic_transform', 'compare', 'calc_rdm',
         'calc_rdm_unbalanced', 'cov_from_measurements', 'pool_rdm', 'fit_regress', 'eval_fixed', 'eval_bootstrap',
         'rescale', 'from_partials', 'concat', 'RDMs.save', 'Dataset.subset_obs', 'TemporalDataset.time_as_channels',
         'merge_datasets', 'ModelWeighted.predict_rdm', 'bootstrap_sample']
FAIL_KEYS = ['callable', 'what', 'op', 'suite_check']
TIME_BUDGET = {'quick': 100, 'thorough': 900}

ACCESSORS = {'RDMs.get_vectors', 'RDMs.to_dict', 'Dataset.to_dict', 'TemporalDataset.to_dict', 'DatasetBase.to_dict',
             'Result.to_dict', 'Result.get_noise_ceil', 'Result.get_model_var', 'Result.get_sem',
             'ModelFixed.predict', 'ModelFixed.predict_rdm', 'ModelSelect.predict', 'ModelWeighted.to_dict',
             'ModelFixed.to_dict', 'ModelSelect.to_dict', 'ModelInterpolate.to_dict', 'Model.to_dict',
             'input_check_model', 'parse_input_descriptor', 'batch_to_vectors', 'batch_to_matrices', 'ensure_double',
             'add_pattern_index', 'ModelFamily.get_family_member', 'ModelFamily.get_all_family_members'}
INPLACE = {'RDMs.reorder', 'RDMs.sort_by', 'RDMs.append', 'Dataset.sort_by', 'TemporalDataset.sort_by',
           'dict_to_list'}   # dict_to_list: documented in-place conversion helper of the hdf5 reader
SKIP = {'Weighted_MDS.fit', 'Weighted_MDS.fit_transform', 'smacof', 'run', 'remove_file',
        'load_dataset', 'load_rdm', 'load_results',       # covered through the save recipes (need a file)
        'evaluate_models_searchlight', 'get_searchlight_RDMs', 'get_volume_searchlight'}  # C19 (joblib workers)


# ---------------------------------------------------------------------------
class Kit:
    """fresh, independent argument objects for one call"""

    def __init__(self, rng, variant):
        self.rng = rng
        self.variant = variant
        self.cont = gen.CONTAINERS[variant % 2]
        self.tmp = None

    def rdms(self, n_rdm=None, n_cond=6, nan=False, positive=True):
        if n_rdm is None:
            # variant 3: a stack of ONE RDM wherever the recipe does not need several (single-subject data, a pooled
            # RDM, a fixed model) -- the size at which "nothing to do" shortcuts return the input itself
            n_rdm = 1 if self.variant == 3 else 4
        if self.variant == 2 and not nan and n_cond >= 3:
            # the argument is itself a derived object (conditions selected out of a larger RDMs object): its
            # library-managed 'index' is not 0..n-1 and it may share containers with the object it came from --
            # the normal state of affairs in a multi-step analysis
            big = gen.rdm_vectors(self.rng, n_rdm, n_cond + 2, 'eucl' if positive else 'neg')
            labels = [f'c{i}' for i in range(n_cond)]
            labels.insert(2, 'x1')
            labels.insert(0, 'x0')
            self.parent = RDMs(big, dissimilarity_measure='squared euclidean', descriptors={'exp': 'e', 'w0': 1.5},
                               rdm_descriptors={'subj': gen.wrap([f's{i % 2}' for i in range(n_rdm)], self.cont),
                                                'uid': gen.wrap(list(range(10, 10 + n_rdm)), self.cont),
                                                'wt': gen.wrap([float(i + 1) for i in range(n_rdm)], self.cont)},
                               pattern_descriptors={'cond': gen.wrap(labels, self.cont),
                                                    'cat': gen.wrap([0 if lab[0] == 'x' else int(lab[1:]) % 2
                                                                     for lab in labels], self.cont)})
            return self.parent.subset_pattern('cond', [f'c{i}' for i in range(n_cond)])
        v = gen.rdm_vectors(self.rng, n_rdm, n_cond, 'eucl' if positive else 'neg')
        if nan:
            v[:, [1, 4]] = np.nan
        elif self.variant == 3 and positive:
            # variant 3 also stores the (non-negative, whole-number) dissimilarities in an unsigned integer array
            v = np.round(v * 10).astype(np.uint16)
        return RDMs(v, dissimilarity_measure='squared euclidean', descriptors={'exp': 'e', 'w0': 1.5},
                    rdm_descriptors={'subj': gen.wrap([f's{i % 2}' for i in range(n_rdm)], self.cont),
                                     'uid': gen.wrap(list(range(10, 10 + n_rdm)), self.cont),
                                     'wt': gen.wrap([float(i + 1) for i in range(n_rdm)], self.cont)},
                    pattern_descriptors={'cond': gen.wrap([f'c{i}' for i in range(n_cond)], self.cont),
                                         'cat': gen.wrap([i % 2 for i in range(n_cond)], self.cont)})

    def dataset(self, n_cond=4, n_fold=3, n_ch=5, positive=True, zero_mean_rows=False):
        cond = [c for f in range(n_fold) for c in range(n_cond)]
        fold = [f for f in range(n_fold) for c in range(n_cond)]
        m = self.rng.gamma(2.0, 2.0, size=(len(cond), n_ch)) + 0.1 if positive else self.rng.standard_normal((len(cond), n_ch))
        if zero_mean_rows:
            # data the user has already centred per observation, with row means that are exactly 0.0 (whole numbers
            # a, -a, b, -b, ... in random order): the case in which "nothing to subtract" shortcuts apply
            half = self.rng.integers(1, 9, size=(len(cond), n_ch // 2)).astype(float)
            m = np.concatenate([half, -half] + ([np.zeros((len(cond), 1))] if n_ch % 2 else []), axis=1)
            m = np.array([row[self.rng.permutation(n_ch)] for row in m])
            assert m.shape == (len(cond), n_ch) and not m.mean(axis=1).any()
        od = {'cond': gen.wrap(cond, self.cont), 'fold': gen.wrap(fold, self.cont),
              'lab': gen.wrap([f'k{c}' for c in cond], self.cont)}
        if self.variant == 3:
            # the user's own 'index' descriptor (original trial numbers): a name the library also likes to use
            od['index'] = gen.wrap([100 + 3 * i for i in range(len(cond))], self.cont)
        return Dataset(m, descriptors={'subj': 's1', 'sess': 2},
                       obs_descriptors=od,
                       channel_descriptors={'ch': gen.wrap([f'v{i}' for i in range(n_ch)], self.cont),
                                            'roi': gen.wrap([i % 2 for i in range(n_ch)], self.cont)})

    def temporal(self, n_obs=6, n_ch=3, n_t=4):
        m = self.rng.standard_normal((n_obs, n_ch, n_t))
        return TemporalDataset(m, descriptors={'subj': 's1'},
                               obs_descriptors={'cond': gen.wrap([i % 3 for i in range(n_obs)], self.cont),
                                                'rep': gen.wrap([i // 3 for i in range(n_obs)], self.cont)},
                               channel_descriptors={'ch': gen.wrap([f'v{i}' for i in range(n_ch)], self.cont)},
                               time_descriptors={'time': np.arange(n_t) * 0.5})

    def model(self, kind='weighted', n_cond=6):
        b = self.rdms(3, n_cond)
        if kind == 'fixed':
            return ModelFixed('f', self.rdms(1, n_cond))
        return {'weighted': ModelWeighted, 'select': ModelSelect, 'interpolate': ModelInterpolate}[kind](kind, b)

    def result(self):
        from rsatoolbox.inference import eval_fixed
        return eval_fixed([self.model('fixed'), self.model('fixed')], self.rdms(5, 6), method='cosine')

    def tmpdir(self):
        if self.tmp is None:
            self.tmp = tempfile.mkdtemp(prefix='verif-c12-')
        return self.tmp

    def cleanup(self):
        if self.tmp:
            shutil.rmtree(self.tmp, ignore_errors=True)


POOL_METHODS = ['cosine', 'corr', 'rho-a', 'spearman', 'euclid', 'cosine_cov', 'corr_cov', 'tau-a']
N_VARIANTS = {'pool_rdm': 16, 'pooling.pool_rdm': 16}


def fitter_args(k, mkind='weighted'):
    return [k.model(mkind), k.rdms(3, 6)], dict(method='cosine')


def sets_of(k):
    from rsatoolbox.inference import sets_k_fold
    d = k.rdms(4, 6)
    np.random.seed(3)
    return d, sets_k_fold(d, k_rdm=2, k_pattern=2, random=False)


def recipes():
    """short qualname -> builder(kit) -> (args, kwargs).  For methods args[0] is self."""
    R = {}
    # --- RDMs methods
    R['RDMs.copy'] = lambda k: ([k.rdms()], {})
    R['RDMs.get_matrices'] = lambda k: ([k.rdms()], {})
    R['RDMs.get_vectors'] = lambda k: ([k.rdms()], {})
    R['RDMs.mean'] = lambda k: ([k.rdms(nan=k.variant >= 1)], {'weights': [None, 'wt', np.full((4, 15), 2.0)][k.variant % 3]})
    # variant 1: the selection keeps EVERYTHING (a complete label list, a full fold) -- where a "nothing to drop"
    # shortcut would hand back the source's own array (seeded change C12-ac)
    R['RDMs.subset'] = lambda k: ([k.rdms(), 'subj', 's0' if k.variant != 1 else ['s0', 's1']], {})
    R['RDMs.subsample'] = lambda k: ([k.rdms(), 'uid', [10, 10, 12]], {})
    R['RDMs.subset_pattern'] = lambda k: ([k.rdms(), 'cond', ['c0', 'c2', 'c3'] if k.variant != 1 else
                                           [f'c{i}' for i in range(6)]], {})
    R['RDMs.subsample_pattern'] = lambda k: ([k.rdms(), 'cond', ['c0', 'c0', 'c2', 'c3']], {})
    R['RDMs.to_df'] = lambda k: ([k.rdms()], {})
    R['RDMs.to_dict'] = lambda k: ([k.rdms()], {})
    R['RDMs.reorder'] = lambda k: ([k.rdms(), [2, 0, 1, 3, 5, 4]], {})
    R['RDMs.sort_by'] = lambda k: ([k.rdms()], {'cond': ['c3', 'c1', 'c0', 'c2', 'c5', 'c4']})
    R['RDMs.append'] = lambda k: ([k.rdms(), k.rdms(2)], {})
    R['RDMs.save'] = lambda k: ([k.rdms(), os.path.join(k.tmpdir(), f'r{k.variant}.' + ['h5', 'pkl'][k.variant % 2])],
                                {'file_type': ['hdf5', 'pkl'][k.variant % 2], 'overwrite': bool(k.variant % 2)})
    R['RDMs.__getitem__'] = lambda k: ([k.rdms(), [0, 2]], {})
    # --- rdm functions
    R['concat'] = lambda k: ([k.rdms(2), k.rdms(3)] if k.variant else [[k.rdms(2), k.rdms(1)]], {})
    R['get_categorical_rdm'] = lambda k: ([gen.wrap([0, 1, 1, 0, 2], k.cont)], {})
    R['permute_rdms'] = lambda k: ([k.rdms(), np.array([2, 0, 1, 3, 5, 4])], {})
    R['inverse_permute_rdms'] = lambda k: ([rsatoolbox.rdm.rdms.permute_rdms(k.rdms(), np.array([2, 0, 1, 3, 5, 4]))], {})
    R['rdms_from_dict'] = lambda k: ([k.rdms().to_dict()], {})
    for t in ('rank', 'sqrt', 'positive', 'minmax', 'geodesic'):
        R[f'{t}_transform'] = (lambda k, t=t: ([k.rdms(positive=t not in ('positive', 'sqrt') or k.variant in (0, 3))], {}))
    R['geotopological_transform'] = lambda k: ([k.rdms(), 0.1, 0.9], {})
    R['transform'] = lambda k: ([k.rdms(), lambda x: x ** 2], {})
    R['from_partials'] = lambda k: ([[k.rdms(2).subset_pattern('cond', ['c0', 'c1', 'c3']),
                                      k.rdms(1).subset_pattern('cond', ['c3', 'c4', 'c1'])]], {'descriptor': 'cond'})
    R['rescale'] = lambda k: ([k.rdms(nan=k.variant == 1)], {'method': ['evidence', 'setsize', 'simple'][k.variant % 3]})
    R['pairs_by_percentile'] = lambda k: ([k.rdms()], {'min': 10, 'max': 90})
    cmp_names = ['compare_cosine', 'compare_correlation', 'compare_spearman', 'compare_rho_a', 'compare_kendall_tau',
                 'compare_kendall_tau_a', 'compare_bures_similarity', 'compare_bures_metric']
    for n in cmp_names:
        R[n] = lambda k: ([k.rdms(2), k.rdms(3)] if k.variant != 1 else [k.rdms(2).dissimilarities, k.rdms(3)], {})
    for n in ('compare_cosine_cov_weighted', 'compare_correlation_cov_weighted'):
        R[n] = lambda k: ([k.rdms(2), k.rdms(3)], {'sigma_k': [None, np.arange(1., 7.), gen.spd(k.rng, 6, 10.)][k.variant % 3]})
    R['compare_neg_riemannian_distance'] = lambda k: ([k.rdms(1), k.rdms(1)], {'sigma_k': None})
    R['compare'] = lambda k: ([k.rdms(2), k.rdms(3)], {'method': ['cosine', 'corr', 'cosine_cov', 'tau-a', 'rho-a',
                                                                 'spearman'][k.variant % 6]})
    # --- calc
    R['calc_rdm'] = lambda k: ([k.dataset() if k.variant != 2 else [k.dataset(), k.dataset()]],
                               {'method': ['euclidean', 'correlation', 'crossnobis'][k.variant % 3], 'descriptor': 'cond',
                                'cv_descriptor': 'fold' if k.variant % 3 == 2 else None, 'remove_mean': bool(k.variant)})
    R['calc_rdm_euclidean'] = lambda k: ([k.dataset()], {'descriptor': [None, 'cond', 'cond'][k.variant % 3],
                                                         'remove_mean': bool(k.variant % 2)})
    R['calc_rdm_correlation'] = lambda k: ([k.dataset(zero_mean_rows=k.variant == 3)],
                                           {'descriptor': [None, 'cond', 'cond'][k.variant % 3]})
    R['calc_rdm_mahalanobis'] = lambda k: ([k.dataset()], {'descriptor': [None, 'cond', 'cond'][k.variant % 3],
                                                           'noise': gen.spd(k.rng, 5, 10.), 'remove_mean': bool(k.variant % 2)})
    R['calc_rdm_crossnobis'] = lambda k: ([k.dataset(), 'cond'],
                                          {'cv_descriptor': 'fold', 'remove_mean': bool(k.variant % 2),
                                           'noise': [None, gen.spd(k.rng, 5, 10.),
                                                     [gen.spd(k.rng, 5, 10.) for _ in range(3)]][k.variant % 3]})
    R['calc_rdm_poisson'] = lambda k: ([k.dataset()], {'descriptor': [None, 'cond', 'cond'][k.variant % 3]})
    R['calc_rdm_poisson_cv'] = lambda k: ([k.dataset()], {'descriptor': 'cond', 'cv_descriptor': 'fold'})
    R['calc_rdm_movie'] = lambda k: ([k.temporal()], {'descriptor': 'cond', 'method': 'euclidean'})
    R['calc_rdm_unbalanced'] = lambda k: ([k.dataset()], {'descriptor': 'cond' if k.variant != 3 else None,
                                                          'method': ['crossnobis', 'correlation', 'crossnobis', 'euclidean'][k.variant % 4],
                                                          # variant 0: cross-validated method without fold descriptor;
                                                          # variant 3: no condition descriptor (one condition per row)
                                                          'cv_descriptor': 'fold' if k.variant % 3 == 2 else None})
    R['calc_one_similarity'] = lambda k: ([k.dataset().subset_obs('cond', 0), k.dataset().subset_obs('cond', 1),
                                           np.arange(3), np.arange(3)], {'method': 'euclidean'})
    R['ensure_double'] = lambda k: ([np.arange(6).reshape(2, 3)], {})
    # --- data
    R['Dataset.copy'] = lambda k: ([k.dataset()], {})
    R['Dataset.get_measurements'] = lambda k: ([k.dataset()], {})
    R['Dataset.get_measurements_tensor'] = lambda k: ([k.dataset(), 'cond'], {})
    R['Dataset.split_obs'] = lambda k: ([k.dataset(), 'cond'], {})
    R['Dataset.split_channel'] = lambda k: ([k.dataset(), 'roi'], {})
    R['Dataset.subset_obs'] = lambda k: ([k.dataset(), 'cond', [0, 2] if k.variant != 1 else [0, 1, 2, 3]], {})
    R['Dataset.subset_channel'] = lambda k: ([k.dataset(), 'ch', ['v0', 'v3'] if k.variant != 1 else
                                              [f'v{i}' for i in range(5)]], {})
    R['Dataset.sort_by'] = lambda k: ([k.dataset(), 'cond'], {})
    R['Dataset.odd_even_split'] = lambda k: ([k.dataset(), 'cond'], {})
    R['Dataset.nested_odd_even_split'] = lambda k: ([k.dataset(), 'fold', 'cond'], {})
    R['Dataset.to_df'] = lambda k: ([k.dataset()], {'channel_descriptor': 'ch'})
    R['Dataset.to_dict'] = lambda k: ([k.dataset()], {})
    R['Dataset.save'] = lambda k: ([k.dataset(), os.path.join(k.tmpdir(), f'd{k.variant}.' + ['h5', 'pkl'][k.variant % 2])],
                                   {'file_type': ['hdf5', 'pkl'][k.variant % 2], 'overwrite': True})
    R['TemporalDataset.copy'] = lambda k: ([k.temporal()], {})
    R['TemporalDataset.split_obs'] = lambda k: ([k.temporal(), 'cond'], {})
    R['TemporalDataset.split_channel'] = lambda k: ([k.temporal(), 'ch'], {})
    R['TemporalDataset.split_time'] = lambda k: ([k.temporal(), 'time'], {})
    R['TemporalDataset.subset_obs'] = lambda k: ([k.temporal(), 'cond', [0, 1]], {})
    R['TemporalDataset.subset_channel'] = lambda k: ([k.temporal(), 'ch', ['v0', 'v2']], {})
    R['TemporalDataset.subset_time'] = lambda k: ([k.temporal(), 'time', 0.5, 1.0], {})
    R['TemporalDataset.bin_time'] = lambda k: ([k.temporal(), 'time', [np.array([0., 0.5]), np.array([1.0, 1.5])]], {})
    R['TemporalDataset.sort_by'] = lambda k: ([k.temporal(), 'cond'], {})
    R['TemporalDataset.time_as_channels'] = lambda k: ([k.temporal()], {})
    R['TemporalDataset.time_as_observations'] = lambda k: ([k.temporal()], {'by': 'time'})
    R['TemporalDataset.convert_to_dataset'] = lambda k: ([k.temporal(), 'time'], {})
    R['TemporalDataset.to_dict'] = lambda k: ([k.temporal()], {})
    R['dataset_from_dict'] = lambda k: ([k.dataset().to_dict() if k.variant != 1 else k.temporal().to_dict()], {})
    # variant 2: a list of one dataset (the merged result must still be a new, independent object)
    R['merge_datasets'] = lambda k: ([[k.dataset(), k.dataset()] if k.variant == 0 else
                                      [k.temporal(), k.temporal()] if k.variant == 1 else [k.dataset()]], {})
    R['merge_subsets'] = lambda k: ([[k.dataset(), k.dataset()]], {})
    R['average_dataset'] = lambda k: ([k.dataset()], {})
    # variant 3: a descriptor in which every value occurs once (nothing to average)
    R['average_dataset_by'] = lambda k: ([k.dataset(n_fold=1) if k.variant == 3 else k.dataset(), 'cond'], {})
    for n in ('cov_from_measurements', 'prec_from_measurements', 'cov_from_unbalanced', 'prec_from_unbalanced'):
        R[n] = lambda k: ([k.dataset(n_fold=4, n_ch=3) if k.variant != 2 else [k.dataset(n_fold=4, n_ch=3),
                                                                                 k.dataset(n_fold=4, n_ch=3)], 'cond'],
                          {'method': ['shrinkage_diag', 'shrinkage_eye', 'full'][k.variant % 3]})
    for n in ('cov_from_residuals', 'prec_from_residuals'):
        # variant 3: column-major residuals with non-zero channel means (a transposed channels x time recording)
        R[n] = lambda k: ([np.asfortranarray(k.rng.standard_normal((20, 3)) + 1.5) if k.variant == 3 else
                           k.rng.standard_normal((20, 3)) if k.variant != 2 else
                           [k.rng.standard_normal((20, 3)), k.rng.standard_normal((15, 3))]],
                          {'method': ['shrinkage_diag', 'shrinkage_eye', 'diag'][k.variant % 3]})
    # --- model
    for kind, cls in (('weighted', 'ModelWeighted'), ('fixed', 'ModelFixed'), ('select', 'ModelSelect'),
                      ('interpolate', 'ModelInterpolate')):
        th = {'weighted': np.array([.2, .3, .5]), 'fixed': None, 'select': 1, 'interpolate': np.array([0., .4, .6])}[kind]
        R[f'{cls}.predict'] = (lambda k, kind=kind, th=th: ([k.model(kind)] + ([th] if th is not None else []), {}))
        R[f'{cls}.predict_rdm'] = (lambda k, kind=kind, th=th: ([k.model(kind)] + ([th] if th is not None else []), {}))
        R[f'{cls}.to_dict'] = (lambda k, kind=kind: ([k.model(kind)], {}))
        R[f'{cls}.fit'] = (lambda k, kind=kind: ([k.model(kind), k.rdms(3)], {'method': 'cosine'}))
    R['model_from_dict'] = lambda k: ([k.model(['weighted', 'fixed', 'select'][k.variant % 3]).to_dict()], {})
    R['fit_mock'] = lambda k: fitter_args(k)
    R['fit_select'] = lambda k: fitter_args(k, 'select')
    R['fit_interpolate'] = lambda k: fitter_args(k, 'interpolate')
    for n in ('fit_regress', 'fit_regress_nn', 'fit_optimize', 'fit_optimize_positive'):
        R[n] = lambda k: ([k.model('weighted'), k.rdms(3) if k.variant != 1 else
                           k.rdms(3).subsample_pattern('cond', ['c0', 'c0', 'c1', 'c2', 'c3', 'c5'])],
                          {'method': ['cosine', 'corr', 'cosine_cov'][k.variant % 3],
                           **({'pattern_idx': np.array(['c0', 'c0', 'c1', 'c2', 'c3', 'c5']), 'pattern_descriptor': 'cond'}
                              if k.variant == 1 else {})})
    # --- inference
    for n in ('bootstrap_sample', 'bootstrap_sample_rdm', 'bootstrap_sample_pattern', 'boot_noise_ceiling',
              'sets_leave_one_out_rdm', 'sets_k_fold_rdm', 'sets_random', 'sets_k_fold'):
        R[n] = lambda k: ([k.rdms(5, 7)], {})
    # the randomising fold generators: odd variants split by the user's own condition labels (a sorted array of names)
    for n in ('sets_random', 'sets_k_fold'):
        R[n] = lambda k: ([k.rdms(5, 7)], {'pattern_descriptor': 'cond'} if k.variant % 2 else {})
    R['sets_leave_one_out_pattern'] = lambda k: ([k.rdms(3, 6), 'cond'], {})
    R['sets_k_fold_pattern'] = lambda k: ([k.rdms(3, 6)], {'k': 2, **({'pattern_descriptor': 'cond'} if k.variant % 2 else {})})
    R['sets_of_k_pattern'] = lambda k: ([k.rdms(3, 6)], {'pattern_descriptor': 'cond', 'k': 3})
    R['sets_of_k_rdm'] = lambda k: ([k.rdms(4, 6)], {'k': 2})
    R['cv_noise_ceiling'] = lambda k: ((lambda d, s: ([d, s[2], s[1]], {'method': 'cosine'}))(*sets_of(k)))
    R['crossval'] = lambda k: ((lambda d, s: ([[k.model('weighted'), k.model('fixed')], d, s[0], s[1]],
                                              {'ceil_set': s[2], 'fitter': [rsatoolbox.model.fit_regress, None]}))(*sets_of(k)))
    R['eval_fixed'] = lambda k: ([[k.model('fixed'), k.model('weighted')], k.rdms(4)],
                                 {'theta': [None, np.array([.3, .3, .4])], 'method': ['cosine', 'corr', 'rho-a'][k.variant % 3]})
    for n in ('eval_bootstrap', 'eval_bootstrap_pattern', 'eval_bootstrap_rdm'):
        R[n] = lambda k: ([[k.model('fixed'), k.model('select')], k.rdms(4)], {'theta': [None, 1], 'N': 4})
    R['bootstrap_crossval'] = lambda k: ([[k.model('fixed', 7), k.model('weighted', 7)], k.rdms(4, 7)],
                                         {'N': 3, 'k_pattern': 2, 'k_rdm': 2, 'fitter': [None, rsatoolbox.model.fit_regress]})
    R['eval_dual_bootstrap'] = lambda k: ([[k.model('fixed', 7)], k.rdms(4, 7)], {'N': 3})
    R['eval_dual_bootstrap_random'] = lambda k: ([[k.model('fixed', 7)], k.rdms(5, 7)], {'N': 3, 'n_pattern': 0, 'n_rdm': 1})
    for n in ('bootstrap_testset', 'bootstrap_testset_pattern', 'bootstrap_testset_rdm'):
        R[n] = lambda k: ([[k.model('fixed', 7), k.model('select', 7)], k.rdms(4, 7)], {'N': 3})
    for n in ('get_means', 'get_sem', 'get_model_var', 'get_noise_ceil', 'summary', 'test_all', 'test_noise',
              'test_pairwise', 'test_zero', 'to_dict'):
        R[f'Result.{n}'] = lambda k: ([k.result()], {})
    R['Result.get_ci'] = lambda k: ([k.result(), 0.9], {})
    R['Result.get_errorbars'] = lambda k: ([k.result()], {})
    R['Result.save'] = lambda k: ([k.result(), os.path.join(k.tmpdir(), f'res{k.variant}.' + ['h5', 'pkl'][k.variant % 2])],
                                  {'file_type': ['hdf5', 'pkl'][k.variant % 2], 'overwrite': True})
    R['result_from_dict'] = lambda k: ([k.result().to_dict()], {})
    # --- util
    # pooling: every method, for a stack of three and for a stack of one (variants 0..15, see N_VARIANTS)
    R['pool_rdm'] = lambda k: ([k.rdms(3 if k.variant < 8 else 1, nan=k.variant == 1)],
                               {'method': POOL_METHODS[k.variant % 8]})
    R['pooling.pool_rdm'] = lambda k: ([k.rdms(3 if k.variant < 8 else 1)], {'method': POOL_METHODS[(k.variant + 4) % 8]})
    R['input_check_model'] = lambda k: ([[k.model('fixed'), k.model('weighted')]], {'theta': [None, np.ones(3)]})
    ev = lambda k: k.rng.standard_normal((12, 3, 4)) * 0.1 + 0.3  # noqa: E731
    R['all_tests'] = lambda k: ([ev(k), np.array([np.full(12, .5), np.full(12, .8)])],
                                {'test_type': ['t-test', 'bootstrap', 'ranksum'][k.variant % 3], 'model_var': np.ones(3) * .01,
                                 'diff_var': np.ones(3) * .01, 'noise_ceil_var': np.ones((3, 2)) * .01, 'dof': 5})
    R['pair_tests'] = lambda k: ([ev(k)], {'test_type': ['t-test', 'bootstrap', 'ranksum'][k.variant % 3],
                                           'diff_var': np.ones(3) * .01, 'dof': 5})
    R['zero_tests'] = lambda k: ([ev(k)], {'test_type': ['t-test', 'bootstrap', 'ranksum'][k.variant % 3],
                                           'model_var': np.ones(3) * .01, 'dof': 5})
    R['nc_tests'] = lambda k: ([ev(k), np.array([np.full(12, .5), np.full(12, .8)])],
                               {'test_type': ['t-test', 'bootstrap', 'ranksum'][k.variant % 3],
                                'noise_ceil_var': np.ones((3, 2)) * .01, 'dof': 5})
    R['bootstrap_pair_tests'] = lambda k: ([ev(k)], {})
    R['ranksum_pair_test'] = lambda k: ([ev(k)], {})
    R['ranksum_value_test'] = lambda k: ([ev(k)], {})
    R['t_tests'] = lambda k: ([ev(k), np.ones(3) * .01], {'dof': 5})
    R['t_test_0'] = lambda k: ([ev(k), np.ones(3) * .01], {'dof': 5})
    R['t_test_nc'] = lambda k: ([ev(k), np.ones(3) * .01, 0.5], {'dof': 5})
    R['extract_variances'] = lambda k: ([[np.ones(5) * .1, gen.spd(k.rng, 5, 10.) * .01,
                                          np.array([gen.spd(k.rng, 5, 10.) * .01 for _ in range(3)])][k.variant % 3]],
                                        {'nc_included': True, 'n_rdm': 6, 'n_pattern': 7})
    R['get_errorbars'] = lambda k: ([np.ones(3) * .01, ev(k)[:, :, 0], 5], {})
    R['default_k_pattern'] = lambda k: ([20], {})
    R['default_k_rdm'] = lambda k: ([8], {})
    d = lambda k: {'a': gen.wrap([1, 2, 3, 4], k.cont), 'index': [0, 1, 2, 3]}  # noqa: E731
    R['extract_dict'] = lambda k: ([d(k), [0, 2]], {})
    R['subset_descriptor'] = lambda k: ([d(k), [0, 2]], {})
    R['append_descriptor'] = lambda k: ([d(k), d(k)], {})
    R['bool_index'] = lambda k: ([gen.wrap([1, 2, 1, 3], k.cont), [1, 3]], {})
    R['num_index'] = lambda k: ([gen.wrap([1, 2, 1, 3], k.cont), 1], {})
    R['check_descriptor_length'] = lambda k: ([d(k), 4], {})
    R['check_descriptor_length_error'] = lambda k: ([d(k), 'd', 4], {})
    R['desc_eq'] = lambda k: ([d(k), d(k)], {})
    R['dict_to_list'] = lambda k: ([{'a': np.array([1, 2]), 'b': {'0': 'x', '1': 'y'}}], {})
    R['format_descriptor'] = lambda k: ([d(k)], {})
    R['parse_input_descriptor'] = lambda k: ([d(k)], {})
    R['get_unique_inverse'] = lambda k: ([gen.wrap([3, 1, 3, 2], k.cont)], {})
    R['get_unique_unsorted'] = lambda k: ([gen.wrap([3, 1, 3, 2], k.cont)], {})
    R['centering'] = lambda k: ([4], {})
    R['get_v'] = lambda k: ([5, [None, gen.spd(k.rng, 5, 10.), None][k.variant % 3]], {})
    R['indicator'] = lambda k: ([np.array([0, 1, 1, 2])], {})
    R['pairwise_contrast'] = lambda k: ([np.array([0, 1, 1, 2])], {})
    R['pairwise_contrast_sparse'] = lambda k: ([np.array([0, 1, 1, 2])], {})
    R['row_col_indicator_g'] = lambda k: ([4], {})
    R['row_col_indicator_rdm'] = lambda k: ([4], {})
    R['square_category_binary_mask'] = lambda k: ([[0, 2], 4], {})
    R['square_between_category_binary_mask'] = lambda k: ([[0, 2], [1], 4], {})
    R['add_pattern_index'] = lambda k: ([k.rdms(), 'cond'], {})
    R['batch_to_matrices'] = lambda k: ([k.rdms().dissimilarities.copy()], {})
    R['batch_to_vectors'] = lambda k: ([k.rdms().get_matrices()], {})
    R['category_condition_idxs'] = lambda k: ([k.rdms(), 'cat'], {})
    R['weight_to_matrices'] = lambda k: ([np.ones((2, 6))], {})
    return R


def discover():
    """public functions and public methods defined in the five packages"""
    out = {}
    for pk in ('rdm', 'data', 'model', 'inference', 'util'):
        p = importlib.import_module('rsatoolbox.' + pk)
        for mi in pkgutil.iter_modules(p.__path__):
            try:
                m = importlib.import_module(f'rsatoolbox.{pk}.{mi.name}')
            except Exception:
                continue
            for name, obj in vars(m).items():
                if name.startswith('_'):
                    continue
                if inspect.isfunction(obj) and obj.__module__ == m.__name__:
                    short = name if not (mi.name == 'pooling' and name == 'pool_rdm') else 'pooling.pool_rdm'
                    out[short] = (obj, None)
                elif inspect.isclass(obj) and obj.__module__ == m.__name__:
                    for mn, mo in vars(obj).items():
                        if (mn.startswith('_') and mn != '__getitem__') or not inspect.isfunction(mo):
                            continue
                        out[f'{name}.{mn}'] = (mo, obj)
    return out


def inherited(short, R):
    """TemporalDataset.save -> Dataset.save etc.: methods defined on a base class are exercised on subclasses"""
    return R.get(short)


# ---------------------------------------------------------------------------
def apply_inplace(obj, rng):
    """yield (name, thunk) of documented in-place operations / array writes applicable to obj"""
    ops = []
    if isinstance(obj, RDMs) and obj.n_cond >= 2:
        key = [k for k in obj.pattern_descriptors if k != 'index']
        # operations that leave the order as it is come first: they do not disturb whatever the object still shares
        # with the object it was derived from, so the later operations meet the same state
        ops.append(('sort_by_no_key', lambda: obj.sort_by()))        # only the default re-indexing acts
        if key and len(set(map(str, obj.pattern_descriptors[key[0]]))) == obj.n_cond:
            # sorting into the order the object is already in (e.g. "make sure it is sorted" before plotting)
            cur = list(obj.pattern_descriptors[key[0]])
            ops.append(('sort_by_present_order', lambda: obj.sort_by(**{key[0]: cur})))
        ops.append(('reorder_identity', lambda: obj.reorder(list(range(obj.n_cond)))))
        order = list(range(obj.n_cond))[::-1]
        ops.append(('reorder', lambda: obj.reorder(order)))
        if key:
            ops.append(('sort_by', lambda: obj.sort_by(**{key[0]: 'alpha'})))
        else:
            ops.append(('sort_by', lambda: obj.sort_by(index=list(range(obj.n_cond))[::-1])))
        ops.append(('append', lambda: obj.append(obj.copy())))
        ops.append(('array_write', lambda: obj.dissimilarities.__setitem__((0, 0), -7.5)))
    elif isinstance(obj, DatasetBase) and obj.n_obs >= 1 and obj.obs_descriptors:
        key = list(obj.obs_descriptors)[0]
        ops.append(('dataset_sort_by', lambda: obj.sort_by(key)))
        ops.append(('array_write', lambda: obj.measurements.__setitem__((0,) * obj.measurements.ndim, -7.5)))
    elif isinstance(obj, np.ndarray) and obj.size and obj.flags.writeable and obj.dtype.kind == 'f':
        ops.append(('array_write', lambda: obj.__setitem__((0,) * obj.ndim, -7.5)))
    return ops


def objects_in(x, depth=0):
    out = []
    if depth > 3:
        return out
    if isinstance(x, (RDMs, DatasetBase, np.ndarray)):
        out.append(x)
    elif isinstance(x, Model):
        pass
    elif isinstance(x, (list, tuple)):
        for v in x:
            out += objects_in(v, depth + 1)
    return out


def run_callable(ctx, short, fn, cls, builder, variant):
    rng = ctx.rng
    sig = dict(callable=short, variant=variant)
    kit = Kit(rng, variant)
    try:
        try:
            np.random.seed(11)
            args, kwargs = builder(kit)
        except Exception as exc:
            ctx.count('synthesiser_failed')
            ctx.notes.append(f'synthesiser failed for {short}: {exc!r}')
            return False
        is_method = cls is not None
        target = (lambda a, kw: getattr(a[0], fn.__name__)(*a[1:], **kw)) if is_method else (lambda a, kw: fn(*a, **kw))
        # user-supplied callables / parameter lists (fitter, theta) are neither data arrays nor descriptors
        kw_data = lambda kw: {a: b for a, b in kw.items() if a not in ('fitter', 'theta')}  # noqa: E731
        before = [fingerprint(a) for a in args] + [fingerprint(kw_data(kwargs))]
        wit = lambda **k: dict(callable=short, variant=variant, **k)  # noqa: E731
        try:
            np.random.seed(12)
            result = target(args, kwargs)
        except Exception as exc:
            ctx.count('call_raised')
            ctx.notes.append(f'{short} v{variant} raised {type(exc).__name__}: {str(exc)[:120]}')
            return False
        ctx.case('arguments_unchanged', sig, sample={'callable': short, 'args': [type(a).__name__ for a in args]})
        after = [fingerprint(a) for a in args] + [fingerprint(kw_data(kwargs))]
        start = 1 if (short in INPLACE) else 0
        for i in range(start, len(before)):
            if before[i] != after[i]:
                which = f'argument {i} ({type(args[i]).__name__})' if i < len(args) else 'keyword arguments'
                ctx.fail('arguments_unchanged', dict(sig, what='argument_modified'), f'{short} modified its {which}',
                         wit(index=i))
                return True
        # ---- read-only run (fresh arguments, every array read-only)
        kit2 = Kit(np.random.default_rng([ctx.seed, 77, variant]), variant)
        kit2.tmp = kit.tmpdir() if 'save' in short else None
        try:
            np.random.seed(11)
            a2, k2 = builder(Kit(np.random.default_rng([ctx.seed, 78, variant]), variant)) if False else builder(kit2)
            if short.endswith('.save'):
                a2[1] = a2[1].replace('.', '_ro.')
            frozen = freeze(a2[start:]) + freeze(k2)
            if frozen:
                ctx.case('readonly_arguments', sig)
                try:
                    np.random.seed(12)
                    target(a2, k2)
                except ValueError as exc:
                    if 'buffer source array is read-only' in str(exc):
                        ctx.count('readonly_rejected_by_compiled_kernel')   # typed memoryviews refuse read-only
                        # buffers before any access: not a write; the fingerprint run above decides
                    elif 'read-only' in str(exc) or 'readonly' in str(exc) or 'not writeable' in str(exc).lower():
                        ctx.fail('readonly_arguments', dict(sig, what='write_into_argument'),
                                 f'{short} writes into an argument array: {exc} | '
                                 f'{traceback.format_exc(limit=4).splitlines()[-3].strip()}', wit())
                        return True
                except Exception:
                    pass
        finally:
            if kit2.tmp and kit2.tmp != kit.tmp:
                kit2.cleanup()
        # ---- independence of result and sources
        if short in ACCESSORS or short in INPLACE:
            return True
        results = objects_in(result if not isinstance(result, tuple) else list(result))
        if isinstance(result, Result):
            results = []
        if results:
            ctx.case('result_independent', sig)
            sh = shares_memory(results, args[start:])
            if sh is not None and not short.startswith(('batch_to_', 'ensure_double')):
                ctx.fail('result_independent', dict(sig, what='shared_memory'), f'{short}: a data array of the result '
                         f'shares memory with an argument array', wit())
                return True
        sources = objects_in(args)
        # in-place ops on the result must leave the sources alone
        for r in results[:3]:
            for name, thunk in apply_inplace(r, rng):
                fb = [fingerprint(s, index=True) for s in sources]
                try:
                    thunk()
                except Exception:
                    continue
                ctx.case('inplace_on_result_leaves_source', dict(sig, op=name))
                if [fingerprint(s, index=True) for s in sources] != fb:
                    ctx.fail('inplace_on_result_leaves_source', dict(sig, what='source_changed', op=name),
                             f'{name} on the result of {short} altered the source object', wit(op=name))
                    return True
        # thorough tier: every in-place operation additionally meets a FRESH result (the operations above run one after
        # the other on the same object, so an earlier one may already have cut whatever the result shared with its source)
        if ctx.tier == 'thorough' and results:
            n_ops = len(apply_inplace(results[0], rng))
            for i_op in range(n_ops):
                try:
                    np.random.seed(11)
                    a4, k4 = builder(Kit(np.random.default_rng([ctx.seed, 80, variant, i_op]), variant))
                    if short.endswith('.save'):
                        break
                    np.random.seed(12)
                    res4 = target(a4, k4)
                except Exception:
                    break
                r4 = objects_in(res4 if not isinstance(res4, tuple) else list(res4))
                if isinstance(res4, Result) or not r4:
                    break
                ops4 = apply_inplace(r4[0], rng)
                if i_op >= len(ops4):
                    continue
                name, thunk = ops4[i_op]
                src4 = objects_in(a4)
                fb = [fingerprint(x, index=True) for x in src4]
                try:
                    thunk()
                except Exception:
                    continue
                ctx.case('inplace_on_result_leaves_source', dict(sig, op=name, fresh_result=True))
                if [fingerprint(x, index=True) for x in src4] != fb:
                    ctx.fail('inplace_on_result_leaves_source', dict(sig, what='source_changed', op=name),
                             f'{name} on the (fresh) result of {short} altered the source object', wit(op=name))
                    return True
        # ... and vice versa (fresh call, then mutate the sources)
        try:
            np.random.seed(11)
            a3, k3 = builder(Kit(np.random.default_rng([ctx.seed, 79, variant]), variant))
            if short.endswith('.save'):
                return True
            np.random.seed(12)
            res3 = target(a3, k3)
        except Exception:
            return True
        r3 = objects_in(res3 if not isinstance(res3, tuple) else list(res3))
        if isinstance(res3, Result) or not r3:
            return True
        for s in objects_in(a3)[:3]:
            for name, thunk in apply_inplace(s, rng):
                fb = [fingerprint(r, index=True) for r in r3]
                try:
                    thunk()
                except Exception:
                    continue
                ctx.case('inplace_on_source_leaves_result', dict(sig, op=name))
                if [fingerprint(r, index=True) for r in r3] != fb:
                    ctx.fail('inplace_on_source_leaves_result', dict(sig, what='result_changed', op=name),
                             f'{name} on an argument of {short} altered the object it had returned', wit(op=name))
                    return True
        return True
    finally:
        kit.cleanup()


def suite_workload(ctx):
    """the repository's own test-suite as a workload, with the monitors of vlib/suite_monitor.py switched on"""
    import json
    import subprocess
    import sys
    from vlib import env
    root = os.path.dirname(env.src_root())
    if not os.path.isdir(os.path.join(root, 'tests')):
        ctx.count('suite_unavailable')
        ctx.notes.append(f'no tests directory beside {env.src_root()}')
        return
    tmp = tempfile.mkdtemp(prefix='verif-c12-suite-')
    out = os.path.join(tmp, 'suite.json')
    try:
        e = dict(os.environ, VERIF_SUITE_OUT=out)
        res = subprocess.run([sys.executable, '-m', 'pytest', '-q', '-p', 'no:cacheprovider', '-p', 'vlib.suite_monitor',
                              '--timeout=900', '--continue-on-collection-errors', '-x' if False else '-q', 'tests'],
                             cwd=root, env=e, capture_output=True, text=True, timeout=1500)
        if not os.path.exists(out):
            ctx.count('suite_unavailable')
            ctx.notes.append('suite run wrote no monitor state: ' + (res.stdout + res.stderr)[-400:])
            return
        st = json.load(open(out))
    except subprocess.TimeoutExpired:
        ctx.count('suite_unavailable')
        ctx.notes.append('suite run exceeded its watchdog')
        return
    finally:
        shutil.rmtree(tmp, ignore_errors=True)
    ctx.count('suite_calls_monitored', st['calls'])
    ctx.count('suite_tests_run', st['tests'])
    ctx.count('suite_tests_passed', sum(1 for v in st['outcomes'].values() if v == 'passed'))
    ctx.count('suite_callables_seen', len(st['by_callable']))
    ctx.count('suite_invariant_evaluations', st['invariants'])
    ctx.count('suite_fingerprint_failed', st['fp_failed'])
    ctx.evaluations += st['calls']
    for short, n in st['by_callable'].items():
        key = 'suite_call|' + json.dumps({'callable': short})
        ctx.sigs[key] = ctx.sigs.get(key, 0) + n
    for v in st['violations']:
        what = {'suite:arguments_unchanged': 'argument_modified', 'suite:result_independent': 'shared_memory',
                'suite:class_invariant': 'class_invariant'}.get(v['check'], v['check'])
        ctx.fail('suite_workload', dict(callable=v['callable'], what=what, suite_check=v['check']),
                 f"{v['msg']} (during {v['test']})", dict(test=v['test'], callable=v['callable']))


def run(ctx):
    if ctx.shard == 0:
        suite_workload(ctx)
    R = recipes()
    found = discover()
    reached, unreached = [], []
    n_var = 4
    names = sorted(found)
    for idx, short in enumerate(names):
        if ctx.nshards > 1 and idx % ctx.nshards != ctx.shard:
            continue
        if ctx.out_of_time():
            ctx.notes.append('time budget reached')
            break
        fn, cls = found[short]
        base = short.split('.')[-1]
        if short in SKIP or base in SKIP:
            unreached.append((short, 'skipped (outside scope / covered elsewhere)'))
            continue
        builder = R.get(short)
        if builder is None and cls is not None:
            # methods inherited from a base class: use the recipe of a concrete class
            for alt in ('Dataset', 'TemporalDataset', 'ModelWeighted'):
                if f'{alt}.{base}' in R and issubclass({'Dataset': Dataset, 'TemporalDataset': TemporalDataset,
                                                         'ModelWeighted': ModelWeighted}[alt], cls):
                    builder = R[f'{alt}.{base}']
                    break
        if builder is None:
            builder = R.get(base)
        if builder is None:
            unreached.append((short, 'no argument recipe'))
            continue
        okk = False
        for v in range(N_VARIANTS.get(short, N_VARIANTS.get(base, n_var)) if short in N_VARIANTS or base in N_VARIANTS
                       else n_var):
            try:
                okk = run_callable(ctx, short, fn, cls, builder, v) or okk
            except Exception as exc:
                ctx.notes.append(f'harness problem on {short}: {exc!r} {traceback.format_exc(limit=3)}')
        (reached if okk else unreached).append(short if okk else (short, 'call failed'))
    ctx.count('callables_reached', len(reached))
    ctx.count('callables_discovered', len([n for i, n in enumerate(names) if ctx.nshards == 1 or i % ctx.nshards == ctx.shard]))
    ctx.notes.append('UNREACHED ' + '; '.join(f'{a} [{b}]' for a, b in unreached))
