"""C01  RDM estimators equal their formula on condition means, correctly labelled.

Monitor: result monitor on rsatoolbox.rdm.calc_rdm / calc_rdm_movie.  Results are read through
the *returned labels* (pattern descriptor values -> matrix entries), never by position.
Oracle: vlib.ref.rdm_pairs (dict-grouped means, per-pair loop formula) + metamorphic re-runs.
"""
import copy

import numpy as np

import rsatoolbox
from rsatoolbox.data import Dataset, TemporalDataset
from rsatoolbox.rdm import calc_rdm, calc_rdm_movie
from vlib import gen, ref
from vlib.core import close, maxdiff

LEVEL = 'exploration'
LEVEL_TEXT = ('Seeded exploration of the real calc_rdm/calc_rdm_movie under a result monitor: every '
              'returned (label pair -> value) is compared with an independent loop reference and with '
              'metamorphic re-runs (row order, list/array descriptors, int/float, single/list, movie '
              'frames). Sampling, not enumeration: held on the K executions observed.')
LEVEL_NOTE = ('Trusted: numpy arithmetic of the reference, the generator. Assumes SPD precisions with '
              'cond<=1e2, non-degenerate patterns for correlation, non-negative data for poisson.')
DESIGN_REF = 'DESIGN.md section 4 / C01'
TECHNIQUE = 'runtime result monitor vs loop reference + metamorphic re-runs (label-keyed)'
RULE = ('seeded generator over {method x label kind x descriptor container x repetition design x '
        'value class x single/list/one-element-list x remove_mean x movie/bins}; a case is '
        'non-trivial if it has >=2 conditions and non-degenerate data; distinct = distinct '
        'configuration signature')
ASSUMPTIONS = ['precision matrices SPD with condition number <= 1e2',
               'correlation: patterns with zero variance across channels excluded (definition undefined)',
               'poisson: non-negative data', 'tolerance rtol 1e-9 / atol 1e-10']
REQUIRED = ['check:single_vs_reference', 'check:list_vs_reference', 'check:movie_vs_reference',
            'check:meta_row_permutation', 'check:meta_container', 'check:meta_dtype',
            'check:descriptor_propagation', 'check:one_element_list',
            'check:repeat_calls_same_object']
REACH = ['calc_rdm', 'calc_rdm_euclidean', 'calc_rdm_correlation', 'calc_rdm_mahalanobis',
         'calc_rdm_poisson', '_build_rdms', 'average_dataset_by', 'from_partials', 'concat',
         'calc_rdm_movie', 'RDMs.sort_by']
TIME_BUDGET = {'quick': 60, 'thorough': 600}
FAIL_KEYS = ['method', 'remove_mean', 'one_channel', 'nodesc', 'movie', 'narrow_int', 'noise', 'conv',
             'prev']

METHODS = ['euclidean', 'correlation', 'mahalanobis', 'poisson']
RT, AT = 1e-9, 1e-10


def make_case(rng, method=None):
    method = method or gen.pick(rng, METHODS)
    n_cond = int(rng.integers(2, 10))
    n_ch = int(rng.integers(1, 9))
    if method == 'correlation':
        n_ch = max(n_ch, 3)
    reps = gen.pick(rng, ['balanced', 'single', 'unbalanced'])
    cidx, counts = gen.design(rng, n_cond, reps)
    lkind = gen.pick(rng, gen.LABEL_KINDS)
    labs = gen.labels(rng, n_cond, lkind)
    obs_lab = [labs[i] for i in cidx]
    if method == 'poisson':
        vkind = gen.pick(rng, ['pos', 'posint'])
    else:
        vkind = gen.pick(rng, ['normal', 'normal', 'smallint_f', 'int', 'int8', 'uint8', 'bool'])   # storage dtypes
    meas = gen.values(rng, (len(cidx), n_ch), vkind)
    container = gen.pick(rng, gen.CONTAINERS)
    case = dict(method=method, n_cond=n_cond, n_ch=n_ch, reps=reps, lkind=lkind, vkind=vkind,
                container=container, meas=meas, obs_lab=obs_lab, cidx=cidx, counts=counts,
                remove_mean=bool(rng.integers(2)),
                prior_lambda=float(gen.pick(rng, [1.0, 0.5, 2.0])),
                prior_weight=float(gen.pick(rng, [0.1, 0.5, 1.0])))
    case['prec'] = gen.spd(rng, n_ch, 100.0) if method == 'mahalanobis' else None
    # extra descriptors: one constant within condition, one varying within condition
    const_vals = gen.labels(rng, n_cond, 'str' if lkind != 'str' else 'int')
    case['extra_const'] = [const_vals[i] for i in cidx]
    case['extra_vary'] = [int(v) for v in rng.permutation(len(cidx))]
    case['ds_desc'] = {'subj': gen.pick(rng, ['s01', 's02', 7]), 'sess': int(rng.integers(5))}
    return case


def degenerate(case):
    if case['method'] != 'correlation':
        return False
    means = ref.cond_means(case['meas'], case['obs_lab'])
    return any(np.var(v) < 1e-12 for v in means.values())


def sig_of(case, **extra):
    s = dict(method=case['method'], labels=case['lkind'], container=case['container'],
             reps=case['reps'], values=case['vkind'], narrow_int=case['vkind'] in ('int8', 'uint8', 'bool'),
             size='small' if case['n_cond'] <= 3 else 'mid')
    s.update(extra)
    return s


def build_ds(case, meas=None, obs_lab=None, container=None, rows=None, with_extra=True):
    meas = case['meas'] if meas is None else meas
    obs_lab = case['obs_lab'] if obs_lab is None else obs_lab
    container = container or case['container']
    ec, ev = case['extra_const'], case['extra_vary']
    if rows is not None:
        meas = meas[rows]
        obs_lab = [obs_lab[i] for i in rows]
        ec = [ec[i] for i in rows]
        ev = [ev[i] for i in rows]
    od = {'cond': gen.wrap(obs_lab, container)}
    if with_extra:
        od['extra_const'] = gen.wrap(ec, container)
        od['extra_vary'] = gen.wrap(ev, container)
    return Dataset(np.array(meas), descriptors=dict(case['ds_desc']), obs_descriptors=od,
                   channel_descriptors={'ch': [f'v{i}' for i in range(meas.shape[1])]})


def kwargs_of(case):
    kw = dict(method=case['method'], descriptor='cond')
    if case['method'] == 'mahalanobis':
        kw['noise'] = case['prec'].copy()
    if case['method'] == 'poisson':
        kw['prior_lambda'] = case['prior_lambda']
        kw['prior_weight'] = case['prior_weight']
    if case['method'] in ('euclidean', 'mahalanobis'):
        kw['remove_mean'] = case['remove_mean']
    return kw


def ref_of(case, meas=None, obs_lab=None):
    return ref.rdm_pairs(case['meas'] if meas is None else meas,
                         case['obs_lab'] if obs_lab is None else obs_lab,
                         case['method'], prec=case['prec'],
                         remove_mean=case['remove_mean'],
                         prior_lambda=case['prior_lambda'], prior_weight=case['prior_weight'])


def compare_to_ref(ctx, check, sig, rdms, want, i_rdm=0, data=None, desc='cond', allow_nan_for=None):
    """every unordered label pair: returned value == reference; labels distinct and complete"""
    try:
        lab, got = ref.rdms_as_pairs(rdms, desc, i_rdm)
    except Exception as exc:
        ctx.fail(check, sig, f'cannot read result through labels: {exc!r}', data)
        return False
    want_labels = set()
    for k in want:
        want_labels |= set(k)
    if allow_nan_for is None and set(lab) != want_labels:
        ctx.fail(check, sig, f'label set {sorted(map(str, lab))} != expected '
                 f'{sorted(map(str, want_labels))}', data)
        return False
    ok = True
    for pair, (v1, v2) in got.items():
        if pair in want:
            w = want[pair]
            if not (close(v1, w, RT, AT) and close(v2, w, RT, AT)):
                ctx.fail(check, sig, f'pair {sorted(map(str, pair))}: got {v1!r}/{v2!r} want {w!r}',
                         data)
                ok = False
                break
        else:
            if not (np.isnan(v1) and np.isnan(v2)):
                ctx.fail(check, sig, f'pair {sorted(map(str, pair))} absent from this dataset must '
                         f'be NaN, got {v1!r}', data)
                ok = False
                break
    return ok


def witness(case, **extra):
    d = {k: case[k] for k in ('method', 'obs_lab', 'meas', 'prec', 'remove_mean', 'prior_lambda',
                              'prior_weight', 'container', 'ds_desc')}
    d.update(extra)
    return d


def check_single(ctx, case):
    sig = sig_of(case)
    # the dataset may have been copied / pickled by the caller before it is handed over
    ds, _ = gen.derived(ctx.rng, build_ds(case), gen.pick(ctx.rng, ['fresh', 'fresh', 'copy', 'deepcopy', 'pickle']))
    kw = kwargs_of(case)
    ok, rdms = ctx.guarded('single_vs_reference', sig, calc_rdm, ds, data=lambda: witness(case), **kw)
    if not ok:
        return None
    want = ref_of(case)
    ctx.case('single_vs_reference', sig, sample={'method': case['method'], 'labels': case['obs_lab'],
                                                  'n_channel': case['n_ch']})
    good = compare_to_ref(ctx, 'single_vs_reference', sig, rdms, want, data=lambda: witness(case))
    if rdms.n_rdm != 1 or rdms.n_cond != case['n_cond']:
        ctx.fail('single_vs_reference', sig, f'shape: n_rdm={rdms.n_rdm} n_cond={rdms.n_cond}',
                 witness(case))
    # descriptor propagation
    averaged = max(case['counts']) > 1
    dsig = dict(sig, averaged=averaged)
    ctx.case('descriptor_propagation', dsig)
    lab = [ref._key(v) for v in rdms.pattern_descriptors['cond']]
    const_map = {}
    for lbl, c in zip(case['obs_lab'], case['extra_const']):
        const_map[lbl] = c
    pd = rdms.pattern_descriptors
    if 'extra_const' not in pd:
        ctx.fail('descriptor_propagation', dsig, 'descriptor constant within condition was not '
                 'passed on as pattern descriptor', witness(case))
    else:
        gotc = [ref._key(v) for v in pd['extra_const']]
        wantc = [const_map[l] for l in lab]
        if [str(g) for g in gotc] != [str(w) for w in wantc]:
            ctx.fail('descriptor_propagation', dsig, f'extra_const attached to wrong condition: '
                     f'{gotc} vs {wantc} for labels {lab}', witness(case))
    if averaged and 'extra_vary' in pd:
        ctx.fail('descriptor_propagation', dsig, 'descriptor varying within a condition must not '
                 'become a pattern descriptor', witness(case))
    if not averaged and 'extra_vary' in pd:
        vmap = dict(zip(case['obs_lab'], case['extra_vary']))
        if [int(v) for v in pd['extra_vary']] != [vmap[l] for l in lab]:
            ctx.fail('descriptor_propagation', dsig, 'extra_vary mis-attached', witness(case))
    for k, v in case['ds_desc'].items():
        got = rdms.rdm_descriptors.get(k)
        if got is None or len(got) != 1 or ref._key(got[0]) != v:
            ctx.fail('descriptor_propagation', dsig, f'dataset descriptor {k}={v!r} not attached as '
                     f'rdm descriptor (got {got!r})', witness(case))
    if case['method'] == 'mahalanobis':
        nz = rdms.descriptors.get('noise')
        if nz is None or not np.array_equal(nz, case['prec']):
            ctx.fail('descriptor_propagation', dsig, 'noise precision not recorded', witness(case))
    return rdms if good else None


def check_meta(ctx, case, base):
    """metamorphic re-runs: must give the same label-keyed values as the base run"""
    kw = kwargs_of(case)
    _, base_pairs = ref.rdms_as_pairs(base, 'cond')

    def same(check, sig, rd, what):
        ctx.case(check, sig)
        try:
            _, p = ref.rdms_as_pairs(rd, 'cond')
        except Exception as exc:
            ctx.fail(check, sig, f'{what}: {exc!r}', witness(case))
            return
        if set(p) != set(base_pairs):
            ctx.fail(check, sig, f'{what}: label pairs differ', witness(case))
            return
        for k in p:
            if not close(p[k][0], base_pairs[k][0], RT, AT):
                ctx.fail(check, sig, f'{what}: pair {sorted(map(str, k))} {p[k][0]!r} vs '
                         f'{base_pairs[k][0]!r}', witness(case, what=what))
                return

    sig = sig_of(case)
    # row permutation
    rows = [int(i) for i in ctx.rng.permutation(len(case['obs_lab']))]
    ok, rd = ctx.guarded('meta_row_permutation', sig, calc_rdm, build_ds(case, rows=rows),
                         data=lambda: witness(case, rows=rows), **kw)
    if ok:
        same('meta_row_permutation', sig, rd, f'rows permuted {rows}')
    # descriptor container
    for cont in gen.CONTAINERS:
        if cont == case['container']:
            continue
        s2 = dict(sig, other=cont)
        ok, rd = ctx.guarded('meta_container', s2, calc_rdm, build_ds(case, container=cont),
                             data=lambda: witness(case, other=cont), **kw)
        if ok:
            same('meta_container', s2, rd, f'descriptors as {cont}')
    # dtype: int <-> float copy of the data
    if np.issubdtype(case['meas'].dtype, np.integer):
        other = case['meas'].astype(float)
        tag = 'int->float'
    elif case['vkind'] == 'smallint_f':
        other = case['meas'].astype(np.int64)
        tag = 'float->int'
    else:
        other = None
    if other is not None:
        s2 = dict(sig, conv=tag)
        ok, rd = ctx.guarded('meta_dtype', s2, calc_rdm, build_ds(case, meas=other),
                             data=lambda: witness(case, conv=tag), **kw)
        if ok:
            same('meta_dtype', s2, rd, tag)
    # one-element list == single dataset (values, labels and rdm descriptors)
    s2 = dict(sig, remove_mean=kw.get('remove_mean', False))
    ok, rd = ctx.guarded('one_element_list', s2, calc_rdm, [build_ds(case)],
                         data=lambda: witness(case), **kw)
    if ok:
        same('one_element_list', s2, rd, 'one-element list')
        for k, v in case['ds_desc'].items():
            got = rd.rdm_descriptors.get(k)
            if got is None or len(got) != 1 or ref._key(got[0]) != v:
                ctx.fail('one_element_list', dict(s2, aspect='rdm_descriptors'),
                         f'dataset descriptor {k}={v!r} lost for one-element list (got {got!r})',
                         witness(case))
                break


def check_nodesc(ctx, case):
    """descriptor=None: one row/column per observation, in dataset order"""
    sig = sig_of(case, nodesc=True)
    kw = kwargs_of(case)
    kw['descriptor'] = None
    ds = build_ds(case)
    ok, rd = ctx.guarded('nodesc_vs_reference', sig, calc_rdm, ds, data=lambda: witness(case), **kw)
    if not ok:
        return
    n = len(case['obs_lab'])
    uid = list(range(n))
    want = ref.rdm_pairs(case['meas'], uid, case['method'], prec=case['prec'],
                         remove_mean=case['remove_mean'], prior_lambda=case['prior_lambda'],
                         prior_weight=case['prior_weight'])
    if any(np.isnan(v) for v in want.values()):
        ctx.count('rejected_degenerate')
        return
    ctx.case('nodesc_vs_reference', sig)
    mat = rd.get_matrices()[0]
    if mat.shape != (n, n):
        ctx.fail('nodesc_vs_reference', sig, f'shape {mat.shape}', witness(case))
        return
    for (i, j) in [(i, j) for i in range(n) for j in range(i + 1, n)]:
        if not close(mat[i, j], want[frozenset((i, j))], RT, AT):
            ctx.fail('nodesc_vs_reference', sig, f'obs pair ({i},{j}): {mat[i, j]!r} vs '
                     f'{want[frozenset((i, j))]!r}', witness(case))
            return
    # all obs descriptors carried in order
    if [ref._key(v) for v in rd.pattern_descriptors.get('cond', [])] != list(case['obs_lab']):
        ctx.fail('nodesc_vs_reference', sig, 'obs descriptors not carried in dataset order',
                 witness(case))


def check_list(ctx, case):
    """list of datasets (partly overlapping condition sets) -> from_partials / concat"""
    rng = ctx.rng
    n_ds = int(rng.integers(2, 5))
    labs_all = list(dict.fromkeys(case['obs_lab']))
    dss, refs, metas = [], [], []
    same_conds = bool(rng.integers(2))
    for k in range(n_ds):
        if same_conds or len(labs_all) < 3:
            keep = labs_all
        else:
            m = int(rng.integers(2, len(labs_all) + 1))
            keep = [labs_all[i] for i in sorted(rng.choice(len(labs_all), size=m, replace=False))]
        rows = [i for i, l in enumerate(case['obs_lab']) if l in keep]
        rows = [rows[i] for i in rng.permutation(len(rows))]
        meas = gen.values(rng, (len(case['obs_lab']), case['n_ch']), case['vkind'])
        ds = build_ds(case, meas=meas, rows=rows)
        # two dataset descriptors vary between the datasets; the dicts are filled in different key orders (as happens
        # when they are assembled by different code paths)
        ds.descriptors = {'subj': f'sub{k}', 'sess': 10 + k, 'site': 'A'} if k % 2 == 0 else \
            {'site': 'A', 'sess': 10 + k, 'subj': f'sub{k}'}
        dss.append(ds)
        refs.append(ref_of(case, meas=meas[rows], obs_lab=[case['obs_lab'][i] for i in rows]))
        if any(np.isnan(v) for v in refs[-1].values()):
            ctx.count('rejected_degenerate')
            return
        metas.append(dict(meas=meas[rows], obs_lab=[case['obs_lab'][i] for i in rows]))
    kw = kwargs_of(case)
    noise_mode = 'none'
    precs = None
    if case['method'] == 'mahalanobis':
        noise_mode = gen.pick(rng, ['one', 'per_dataset'])
        if noise_mode == 'per_dataset':
            precs = [gen.spd(rng, case['n_ch'], 100.0) for _ in range(n_ds)]
            kw['noise'] = [p.copy() for p in precs]
            refs = [ref.rdm_pairs(m['meas'], m['obs_lab'], 'mahalanobis', prec=precs[k],
                                  remove_mean=case['remove_mean']) for k, m in enumerate(metas)]
    sig = sig_of(case, n_ds='2' if n_ds == 2 else '3+', same_conds=same_conds, noise=noise_mode,
                 remove_mean=kw.get('remove_mean', False))
    data = lambda: witness(case, datasets=metas, precs=precs)  # noqa: E731
    # "a list" in the broad sense the code accepts (any iterable): list, tuple or a one-shot generator
    coll = [dss, tuple(dss), (d for d in dss)][(n_ds + case['n_ch']) % 3]
    ok, rd = ctx.guarded('list_vs_reference', sig, calc_rdm, coll, data=data, **kw)
    if not ok:
        return
    ctx.case('list_vs_reference', sig, sample={'n_datasets': n_ds, 'labels_per_ds':
                                                [m['obs_lab'] for m in metas]})
    if rd.n_rdm != n_ds:
        ctx.fail('list_vs_reference', sig, f'n_rdm {rd.n_rdm} != {n_ds}', data())
        return
    subj = rd.rdm_descriptors.get('subj')
    if subj is None or len(subj) != n_ds:
        ctx.fail('list_vs_reference', dict(sig, aspect='rdm_descriptors'),
                 f'varying dataset descriptor subj not turned into rdm descriptor: {subj!r}', data())
        return
    sess = rd.rdm_descriptors.get('sess')
    for i in range(n_ds):
        if not str(subj[i]).startswith('sub') or sess is None or str(sess[i]) != str(10 + int(str(subj[i])[3:])):
            ctx.fail('list_vs_reference', dict(sig, aspect='rdm_descriptors'), f'dataset descriptors of RDM {i} do not belong '
                     f'together: subj {subj[i]!r}, sess {None if sess is None else sess[i]!r}', data())
            return
        k = int(str(subj[i])[3:])  # which dataset this RDM claims to be
        if not compare_to_ref(ctx, 'list_vs_reference', sig, rd, refs[k], i_rdm=i, data=data,
                              allow_nan_for=True):
            return
    site = rd.descriptors.get('site', rd.rdm_descriptors.get('site'))
    if site is None:
        ctx.fail('list_vs_reference', dict(sig, aspect='descriptors'), 'shared dataset descriptor lost',
                 data())


def check_list_nodesc(ctx, case):
    """list without condition descriptor -> concat of per-observation RDMs"""
    rng = ctx.rng
    n_ds = int(rng.integers(2, 4))
    n = len(case['obs_lab'])
    measl = [gen.values(rng, (n, case['n_ch']), case['vkind']) for _ in range(n_ds)]
    dss = []
    # half of the time every observation carries a unique trial name, and each dataset lists its trials in its own order:
    # the combined object then follows the first dataset's order, each RDM's values under the right names
    named = n >= 3 and bool(rng.integers(2))
    orders = [[int(i) for i in rng.permutation(n)] for _ in range(n_ds)]
    for k, m in enumerate(measl):
        if named:
            ds = Dataset(m.copy(), descriptors={'subj': f'sub{k}'}, obs_descriptors={'trial': [f't{j}' for j in orders[k]]})
        else:
            ds = Dataset(m.copy(), descriptors={'subj': f'sub{k}'})
        dss.append(ds)
    kw = kwargs_of(case)
    kw['descriptor'] = None
    sig = sig_of(case, nodesc=True, n_ds=n_ds, named_trials=named)
    ok, rd = ctx.guarded('list_nodesc_vs_reference', sig, calc_rdm, dss,
                         data=lambda: witness(case, measl=measl), **kw)
    if not ok:
        return
    ctx.case('list_nodesc_vs_reference', sig)
    if rd.n_rdm != n_ds:
        ctx.fail('list_nodesc_vs_reference', sig, f'n_rdm {rd.n_rdm}', witness(case, measl=measl))
        return
    subj = rd.rdm_descriptors.get('subj')
    for i in range(n_ds):
        k = int(str(subj[i])[3:]) if subj is not None else i
        want = ref.rdm_pairs(measl[k], list(range(n)), case['method'], prec=case['prec'],
                             remove_mean=case['remove_mean'], prior_lambda=case['prior_lambda'],
                             prior_weight=case['prior_weight'])
        if any(np.isnan(v) for v in want.values()):
            ctx.count('rejected_degenerate')
            continue
        mat = rd.get_matrices()[i]
        if named:
            names = [str(v) for v in rd.pattern_descriptors['trial']]
            if sorted(names) != sorted(f't{j}' for j in range(n)):
                ctx.fail('list_nodesc_vs_reference', sig, f'trial names of the combined RDMs: {names}',
                         witness(case, measl=measl, orders=orders))
                return
            row = [orders[k].index(int(nm[1:])) for nm in names]     # row of dataset k that holds the trial at position a
        else:
            row = list(range(n))
        for a in range(n):
            for b in range(a + 1, n):
                if not close(mat[a, b], want[frozenset((row[a], row[b]))], RT, AT):
                    ctx.fail('list_nodesc_vs_reference', sig, f'rdm {i} obs pair ({a},{b}): '
                             f'{mat[a, b]!r} vs {want[frozenset((row[a], row[b]))]!r}',
                             witness(case, measl=measl, orders=orders if named else None))
                    return


def check_movie(ctx, case):
    rng = ctx.rng
    n_t = int(rng.integers(1, 6))
    n_obs = len(case['obs_lab'])
    # the temporal dataset keeps the dtype of the values (integer counts stay integers); the reference works on floats
    meas3 = np.stack([gen.values(rng, (n_obs, case['n_ch']), case['vkind']) for _ in range(n_t)], axis=2)
    if not np.issubdtype(meas3.dtype, np.integer) or rng.integers(2):
        meas3 = meas3.astype(float)
    tkind = gen.pick(rng, ['arange', 'float', 'shuffled'])
    if tkind == 'arange':
        times = np.arange(n_t)
    elif tkind == 'float':
        times = np.round(np.linspace(-0.1, 0.4, n_t), 3) if n_t > 1 else np.array([0.25])
    else:
        times = rng.permutation(n_t) * 10
    use_bins = n_t >= 2 and bool(rng.integers(2))
    tds = TemporalDataset(meas3.copy(), descriptors=dict(case['ds_desc']),
                          obs_descriptors={'cond': gen.wrap(case['obs_lab'], case['container'])},
                          channel_descriptors={'ch': [f'v{i}' for i in range(case['n_ch'])]},
                          time_descriptors={'time': np.array(times)})
    kw = dict(method=case['method'], descriptor='cond')
    if case['method'] == 'mahalanobis':
        kw['noise'] = case['prec'].copy()
    if case['method'] == 'poisson':
        kw['prior_lambda'] = case['prior_lambda']
        kw['prior_weight'] = case['prior_weight']
    bins = None
    if use_bins:
        order = list(rng.permutation(n_t))
        cut = int(rng.integers(1, n_t))
        bins = [np.array(sorted(times[order[:cut]])), np.array(sorted(times[order[cut:]]))]
        if abs(float(np.mean(bins[0])) - float(np.mean(bins[1]))) < 1e-9:
            ctx.count('rejected_ambiguous_bins')  # two bins with one time label: not a valid movie
            return
        kw['bins'] = bins
    td_before = np.array(tds.time_descriptors['time'], copy=True)
    m_before = np.array(tds.measurements, copy=True)
    if not movie_pass(ctx, case, tds, kw, meas3, times, tkind, bins, n_t, first=True):
        return
    # the same TemporalDataset object is used again with the other binning mode: an earlier (binned) movie must have
    # left the object as it was, and the later movie equals its own definition
    if n_t >= 2 and rng.integers(2):
        if not (np.array_equal(np.asarray(tds.time_descriptors['time']), td_before)
                and np.array_equal(np.asarray(tds.measurements), m_before)
                and set(tds.time_descriptors) == {'time'}):
            ctx.fail('movie_vs_reference', dict(sig_of(case, movie=True), aspect='dataset_modified'),
                     f'calc_rdm_movie(bins={bins is not None}) altered the TemporalDataset it was given: time descriptors '
                     f'now {dict((k, np.asarray(v).tolist()) for k, v in tds.time_descriptors.items())}',
                     witness(case, meas3=meas3, times=times, bins=bins))
            return
        kw2 = {k: v for k, v in kw.items() if k != 'bins'}
        bins2 = None
        if bins is None:
            order = list(rng.permutation(n_t))
            cut = int(rng.integers(1, n_t))
            bins2 = [np.array(sorted(times[order[:cut]])), np.array(sorted(times[order[cut:]]))]
            if abs(float(np.mean(bins2[0])) - float(np.mean(bins2[1]))) < 1e-9:
                return
            kw2['bins'] = bins2
        movie_pass(ctx, case, tds, kw2, meas3, times, tkind, bins2, n_t, first=False)


def movie_pass(ctx, case, tds, kw, meas3, times, tkind, bins, n_t, first):
    use_bins = bins is not None
    sig = sig_of(case, movie=True, times=tkind, bins=use_bins, n_t='1' if n_t == 1 else '2+',
                 one_channel=case['n_ch'] == 1, reused_object=not first)
    data = lambda: witness(case, meas3=meas3, times=times, bins=bins, reused_object=not first)  # noqa: E731
    ok, rd = ctx.guarded('movie_vs_reference', sig, calc_rdm_movie, tds, data=data, **kw)
    if not ok:
        return False
    ctx.case('movie_vs_reference', sig, sample={'times': times, 'bins': bins, 'method': case['method']})
    c2 = dict(case, remove_mean=False)
    if bins is None:
        frames = [(t, meas3[:, :, i]) for i, t in enumerate(times)]
    else:
        frames = []
        for b in bins:
            sel = [i for i, t in enumerate(times) if t in set(b.tolist())]
            frames.append((float(np.mean(times[sel])), meas3[:, :, sel].astype(float).mean(axis=2)))
    if rd.n_rdm != len(frames):
        ctx.fail('movie_vs_reference', sig, f'n_rdm {rd.n_rdm} != frames {len(frames)}', data())
        return False
    tdesc = rd.rdm_descriptors.get('time')
    if tdesc is None or not close(np.asarray(tdesc, dtype=float), [f[0] for f in frames], 1e-12, 1e-12):
        ctx.fail('movie_vs_reference', dict(sig, aspect='time_descriptor'),
                 f'time rdm_descriptor {tdesc!r} != {[f[0] for f in frames]}', data())
        return False
    for i, (t, m) in enumerate(frames):
        want = ref_of(c2, meas=m)
        if any(np.isnan(v) for v in want.values()):
            ctx.count('rejected_degenerate')
            continue
        if not compare_to_ref(ctx, 'movie_vs_reference', sig, rd, want, i_rdm=i, data=data):
            return False
    if rd.dissimilarity_measure != case['method']:
        ctx.fail('movie_vs_reference', dict(sig, aspect='measure'), 'measure name', data())
        return False
    return True


def check_repeat_calls(ctx, case):
    """history independence: several calls on the *same* Dataset object (different methods /
    options, with and without descriptor) must each equal the reference on the original data"""
    rng = ctx.rng
    if case['method'] == 'poisson' or np.issubdtype(case['meas'].dtype, np.integer):
        vk = case['vkind']
    else:
        vk = 'normal'
    ds = build_ds(case)
    orig = np.array(case['meas'], copy=True)
    steps = []
    methods = ['poisson'] if case['method'] == 'poisson' else ['correlation', 'euclidean', 'mahalanobis']
    if case['n_ch'] < 3 and 'correlation' in methods:
        methods.remove('correlation')
    prec = case['prec'] if case['prec'] is not None else gen.spd(rng, case['n_ch'], 50.0)
    for _ in range(3):
        steps.append(dict(method=gen.pick(rng, methods), nodesc=bool(rng.integers(2)),
                          remove_mean=bool(rng.integers(2))))
    for k, st in enumerate(steps):
        if k and np.asarray(ds.measurements).dtype.kind == 'f' and rng.integers(2):
            # the user corrects some measurements in place between two calls (same object, same shape, same labels): the
            # next RDM is that of the numbers the dataset holds now
            rows = rng.choice(orig.shape[0], size=max(1, orig.shape[0] // 2), replace=False)
            ds.measurements[rows] += np.abs(rng.standard_normal((len(rows), orig.shape[1]))) + 0.5
            orig = np.array(ds.measurements, dtype=float, copy=True)
            ctx.count('measurements_edited_between_calls')
        sig = dict(method=st['method'], nodesc=st['nodesc'], remove_mean=st['remove_mean'],
                   step=k, prev=steps[k - 1]['method'] if k else 'none', values=vk,
                   narrow_int=case['vkind'] in ('int8', 'uint8', 'bool'))
        kw = dict(method=st['method'], descriptor=None if st['nodesc'] else 'cond')
        if st['method'] == 'mahalanobis':
            kw['noise'] = prec.copy()
        if st['method'] in ('euclidean', 'mahalanobis'):
            kw['remove_mean'] = st['remove_mean']
        if st['method'] == 'poisson':
            kw['prior_lambda'], kw['prior_weight'] = case['prior_lambda'], case['prior_weight']
        data = lambda: witness(case, steps=steps, failing_step=k)  # noqa: E731
        ok, rd = ctx.guarded('repeat_calls_same_object', sig, calc_rdm, ds, data=data, **kw)
        if not ok:
            return
        labels = list(range(len(case['obs_lab']))) if st['nodesc'] else case['obs_lab']
        want = ref.rdm_pairs(orig, labels, st['method'], prec=prec,
                             remove_mean=st['remove_mean'] and st['method'] != 'poisson',
                             prior_lambda=case['prior_lambda'], prior_weight=case['prior_weight'])
        if any(np.isnan(v) for v in want.values()):
            ctx.count('rejected_degenerate')
            continue
        ctx.case('repeat_calls_same_object', sig)
        if st['nodesc']:
            mat = rd.get_matrices()[0]
            n = len(labels)
            bad = [(i, j) for i in range(n) for j in range(i + 1, n)
                   if not close(mat[i, j], want[frozenset((i, j))], RT, AT)]
            if bad:
                i, j = bad[0]
                ctx.fail('repeat_calls_same_object', sig, f'step {k} ({st}) after {steps[:k]}: obs pair '
                         f'({i},{j}) {mat[i, j]!r} vs {want[frozenset((i, j))]!r}', data())
                return
        elif not compare_to_ref(ctx, 'repeat_calls_same_object', sig, rd, want, data=data):
            return
        if not np.array_equal(ds.measurements, orig):
            ctx.fail('repeat_calls_same_object', dict(sig, aspect='dataset_modified'),
                     f'step {k} ({st}) modified dataset.measurements', data())
            return


def check_default_precision(ctx, case):
    """mahalanobis without a precision matrix: the documented default is the identity, i.e. the same value as with
    noise=np.eye(n_channel) -- with every option (remove_mean) honoured, for a single dataset and for a list"""
    from rsatoolbox.rdm.calc import calc_rdm_mahalanobis
    rng = ctx.rng
    c2 = dict(case, prec=np.eye(case['n_ch']))
    sig = sig_of(c2, noise='default')
    want = ref_of(c2)
    how = gen.pick(rng, ['calc_rdm', 'list', 'direct'])
    kw = dict(descriptor='cond', remove_mean=case['remove_mean'])
    if how == 'calc_rdm':
        call = lambda: calc_rdm(build_ds(case), method='mahalanobis', **kw)  # noqa: E731
    elif how == 'list':
        call = lambda: calc_rdm([build_ds(case)], method='mahalanobis', **kw)  # noqa: E731
    else:
        call = lambda: calc_rdm_mahalanobis(build_ds(case), **kw)  # noqa: E731
    ok, rd = ctx.guarded('single_vs_reference', dict(sig, entry=how), call, data=lambda: witness(case, entry=how))
    if ok:
        ctx.case('single_vs_reference', dict(sig, entry=how))
        compare_to_ref(ctx, 'single_vs_reference', sig, rd, want, data=lambda: witness(case, entry=how))


def run(ctx):
    n = ctx.n(250, 2400)
    for it in range(n):
        if ctx.out_of_time():
            ctx.notes.append(f'time budget reached after {it} cases')
            break
        case = make_case(ctx.rng, METHODS[it % 4] if it < 8 else None)
        if degenerate(case):
            ctx.count('rejected_degenerate')
            continue
        base = check_single(ctx, case)
        if base is not None:
            check_meta(ctx, case, base)
        if case['method'] == 'mahalanobis':
            check_default_precision(ctx, case)
        if case['method'] != 'correlation' or case['n_ch'] >= 3:
            check_nodesc(ctx, case)
        check_list(ctx, case)
        check_repeat_calls(ctx, case)
        if it % 3 == 0:
            check_list_nodesc(ctx, case)
        if it % 2 == 0:
            check_movie(ctx, case)
