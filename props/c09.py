"""C09  Bootstrap samples are faithful with-replacement resamples of whole groups.

Monitor: draw tap on numpy's global RNG (every randint the library makes is recorded) + result monitor on
bootstrap_sample / _rdm / _pattern and RDMs.subsample / subsample_pattern.
Oracle: every RDM, condition and value of the source carries a unique id, so each entry of a sample
identifies the source entry it must equal; chi-square on the recorded draws.
"""
import numpy as np
import scipy.stats

from rsatoolbox.inference import bootstrap_sample, bootstrap_sample_pattern, bootstrap_sample_rdm
from rsatoolbox.rdm import RDMs
from vlib import gen, ref
from vlib.monitor import RngTap

LEVEL = 'exploration'
LEVEL_TEXT = ('Seeded exploration of the real bootstrap routines with a tap on numpy\'s global RNG: each '
              'recorded draw is checked against the returned index arrays, each sample is reconstructed '
              'entry by entry from unique ids (RDM uid, condition uid, id-encoded values), and selection '
              'frequencies of the recorded draws are tested for uniformity. Held on the K executions observed.')
LEVEL_NOTE = ('The random histories are those numpy produces for the swept seeds (observed, not enumerated). '
              'Uniformity is a fixed-seed chi-square bound at the 1-1e-9 quantile: only gross non-uniformity '
              '(e.g. an off-by-one in the draw range) is detectable.')
DESIGN_REF = 'DESIGN.md section 4 / C09'
TECHNIQUE = 'RNG draw tap + unique-id reconstruction of every sample entry + chi-square on recorded draws'
RULE = ('seeded generator over {routine x rdm grouping (singleton/pairs/giant/few) x pattern grouping x label '
        'kind (int non-0-based / str / strnum) x container x sizes}; every draw of a configuration is a case; '
        'non-trivial: >=2 groups; distinct = configuration signature x outcome class (with/without repeats)')
ASSUMPTIONS = ['numpy global RNG is the only random source of the routines (asserted: every call records >=1 draw)']
REQUIRED = ['check:bootstrap_sample', 'check:bootstrap_sample_rdm', 'check:bootstrap_sample_pattern',
            'check:subsample', 'check:subsample_pattern', 'check:prediction_alignment', 'check:uniformity',
            'rng_draws_observed', 'samples_with_repeats', 'nan_entries_checked', 'source_reordered_between_draws']
REACH = ['bootstrap_sample', 'bootstrap_sample_rdm', 'bootstrap_sample_pattern', 'RDMs.subsample',
         'RDMs.subsample_pattern', 'add_pattern_index']
FAIL_KEYS = ['routine', 'rdm_grouping', 'pattern_grouping', 'labels', 'what']
TIME_BUDGET = {'quick': 60, 'thorough': 600}


def make_source(rng):
    n_rdm = int(rng.integers(2, 8))
    n_cond = int(rng.integers(3, 9))
    rgk = gen.pick(rng, ['singleton', 'pairs', 'giant', 'few'])
    pgk = gen.pick(rng, ['singleton', 'singleton', 'pairs', 'giant', 'few'])
    lk = gen.pick(rng, gen.LABEL_KINDS + ['floatts'])
    rg_idx = gen.group_labels(rng, n_rdm, rgk)
    pg_idx = gen.group_labels(rng, n_cond, pgk)
    rl = gen.labels(rng, int(rg_idx.max()) + 1, lk)
    pl = gen.labels(rng, int(pg_idx.max()) + 1, lk)
    cont = gen.pick(rng, gen.CONTAINERS)
    if rng.integers(4) == 0:
        # condition (and RDM) numbers stored as strictly increasing numpy arrays, one group per item -- the most
        # ordinary descriptor there is, and the one helper code is tempted to pass through without a copy
        rgk, pgk, lk, cont = 'singleton', 'singleton', 'int', 'ndarray'
        rg_idx, pg_idx = np.arange(n_rdm), np.arange(n_cond)
        rl = sorted(gen.labels(rng, n_rdm, 'int'))
        pl = sorted(gen.labels(rng, n_cond, 'int'))
    ruid = [int(v) for v in rng.permutation(n_rdm) + 11]
    puid = [int(v) for v in rng.permutation(n_cond) + 21]
    iu = np.triu_indices(n_cond, 1)
    vals = np.array([[r * 10000 + min(puid[a], puid[b]) * 100 + max(puid[a], puid[b])
                      for a, b in zip(iu[0], iu[1])] for r in ruid], dtype=float)
    # a few exact zeros / ties in the values must not confuse anything: overwrite some entries of a
    # side table instead (values stay id-coded; zeros are exercised via 'zero_pairs' below)
    zero_pairs = set()
    if rng.integers(3) == 0:
        k = int(rng.integers(1, 3))
        for col in rng.choice(vals.shape[1], size=k, replace=False):
            vals[:, col] = 0.0
            zero_pairs.add(frozenset((puid[iu[0][col]], puid[iu[1][col]])))
    # 'mixed' / 'pmixed': a plain list holding numbers and strings side by side (session 1, 2, 'pilot'): every sample
    # entry keeps the very value -- a number stays a number
    rdesc = {'uid': gen.wrap(ruid, cont), 'grp': gen.wrap([rl[i] for i in rg_idx], cont),
             'extra': [f'x{u}' for u in ruid], 'mixed': [(u if i % 2 else f'm{u}') for i, u in enumerate(ruid)]}
    pdesc = {'puid': gen.wrap(puid, cont), 'pgrp': gen.wrap([pl[i] for i in pg_idx], cont),
             'pextra': [f'y{u}' for u in puid], 'pmixed': [(u if i % 2 else f'm{u}') for i, u in enumerate(puid)]}
    # vector-valued descriptors stored as ONE 2-d array (stimulus position, ROI coordinates): a row per item
    rdesc['pos2d'] = np.array([[u, u + 0.5] for u in ruid], dtype=float)
    pdesc['ppos2d'] = np.array([[u, u + 0.25] for u in puid], dtype=float)
    # the id-coded values are whole numbers: a quarter of the sources store them in an integer array
    int_storage = bool(rng.integers(4) == 0)
    src = RDMs(vals.astype(np.int64) if int_storage else vals.copy(), rdm_descriptors=rdesc, pattern_descriptors=pdesc,
               dissimilarity_measure='test', descriptors={'exp': 1})
    meta = dict(n_rdm=n_rdm, n_cond=n_cond, rgk=rgk, pgk=pgk, lk=lk, cont=cont, ruid=ruid, puid=puid,
                rgrp=[rl[i] for i in rg_idx], pgrp=[pl[i] for i in pg_idx], vals=vals, zero_pairs=zero_pairs,
                derived=False, scale=1.0, rmixed=dict(zip(ruid, rdesc['mixed'])), pmixed=dict(zip(puid, pdesc['pmixed'])))
    if n_rdm >= 3 and n_cond >= 4 and rng.integers(3) == 0:
        # the source is itself the result of subset / subset_pattern: its library-managed 'index' descriptors keep
        # the positions in the larger object (not 0..n-1), as after any multi-step analysis
        keep_r = sorted(int(i) for i in rng.choice(n_rdm, size=n_rdm - 1, replace=False))
        keep_p = sorted(int(i) for i in rng.choice(n_cond, size=n_cond - 1, replace=False))
        src = src.subset('uid', [ruid[i] for i in keep_r]).subset_pattern('puid', [puid[i] for i in keep_p])
        meta.update(n_rdm=len(keep_r), n_cond=len(keep_p), ruid=[ruid[i] for i in keep_r], puid=[puid[i] for i in keep_p],
                    rgrp=[meta['rgrp'][i] for i in keep_r], pgrp=[meta['pgrp'][i] for i in keep_p], derived=True)
    meta['rindex'] = [int(v) for v in src.rdm_descriptors['index']]
    meta['pindex'] = [int(v) for v in src.pattern_descriptors['index']]
    return src, meta


def expected_value(meta, r, pa, pb):
    if frozenset((pa, pb)) in meta['zero_pairs']:
        return 0.0
    return (r * 10000 + min(pa, pb) * 100 + max(pa, pb)) * meta['scale']


def check_sample(ctx, check, sig, sample, meta, rdm_sel, pat_sel, rdm_by, pat_by, wit):
    """rdm_sel / pat_sel: drawn descriptor values (None = dimension not resampled)"""
    ruid_s = [int(v) for v in sample.rdm_descriptors['uid']]
    puid_s = [int(v) for v in sample.pattern_descriptors['puid']]
    # expected members with multiplicity
    src_r = list(zip(meta['ruid'], {'grp': meta['rgrp'], 'uid': meta['ruid'], 'index': meta['rindex']}[rdm_by]))
    src_p = list(zip(meta['puid'], {'pgrp': meta['pgrp'], 'puid': meta['puid'], 'index': meta['pindex']}[pat_by]))
    if rdm_sel is None:
        exp_r = [u for u, _ in src_r]
    else:
        exp_r = [u for v in rdm_sel for u, g in src_r if ref._key(g) == ref._key(v)]
    if pat_sel is None:
        exp_p = [u for u, _ in src_p]
    else:
        exp_p = [u for v in pat_sel for u, g in src_p if ref._key(g) == ref._key(v)]
    if sorted(ruid_s) != sorted(exp_r):
        ctx.fail(check, dict(sig, what='rdm_membership'), f'sample RDM uids {ruid_s} != members of drawn groups '
                 f'{exp_r} (drawn {list(map(str, rdm_sel)) if rdm_sel is not None else None})', wit())
        return False
    if sorted(puid_s) != sorted(exp_p):
        ctx.fail(check, dict(sig, what='pattern_membership'), f'sample condition uids {puid_s} != members of '
                 f'drawn groups {exp_p} (drawn {list(map(str, pat_sel)) if pat_sel is not None else None})', wit())
        return False
    if sample.n_rdm != len(ruid_s) or sample.n_cond != len(puid_s):
        ctx.fail(check, dict(sig, what='shape'), 'n_rdm/n_cond disagree with descriptors', wit())
        return False
    # all descriptor values retained
    rg = dict(zip(meta['ruid'], meta['rgrp']))
    pg = dict(zip(meta['puid'], meta['pgrp']))
    def same_value(x, y):
        return isinstance(x, str) == isinstance(y, str) and x == y
    for k, u in enumerate(ruid_s):
        if not np.array_equal(np.asarray(sample.rdm_descriptors['pos2d'][k], dtype=float), [u, u + 0.5]):
            ctx.fail(check, dict(sig, what='rdm_descriptors'), f'row of the 2-d descriptor for RDM uid {u} came back as '
                     f'{sample.rdm_descriptors["pos2d"][k]!r}', wit())
            return False
    for k, u in enumerate(puid_s):
        if not np.array_equal(np.asarray(sample.pattern_descriptors['ppos2d'][k], dtype=float), [u, u + 0.25]):
            ctx.fail(check, dict(sig, what='pattern_descriptors'), f'row of the 2-d descriptor for condition uid {u} came '
                     f'back as {sample.pattern_descriptors["ppos2d"][k]!r}', wit())
            return False
    for k, u in enumerate(ruid_s):
        if not same_value(sample.rdm_descriptors['mixed'][k], meta['rmixed'][u]):
            ctx.fail(check, dict(sig, what='rdm_descriptors'), f'mixed-type descriptor value of RDM uid {u} came back as '
                     f'{sample.rdm_descriptors["mixed"][k]!r}, source has {meta["rmixed"][u]!r}', wit())
            return False
    for k, u in enumerate(puid_s):
        if not same_value(sample.pattern_descriptors['pmixed'][k], meta['pmixed'][u]):
            ctx.fail(check, dict(sig, what='pattern_descriptors'), f'mixed-type descriptor value of condition uid {u} came '
                     f'back as {sample.pattern_descriptors["pmixed"][k]!r}, source has {meta["pmixed"][u]!r}', wit())
            return False
    for k, u in enumerate(ruid_s):
        if ref._key(sample.rdm_descriptors['grp'][k]) != rg[u] or sample.rdm_descriptors['extra'][k] != f'x{u}':
            ctx.fail(check, dict(sig, what='rdm_descriptors'), f'descriptor values of RDM uid {u} changed', wit())
            return False
    for k, u in enumerate(puid_s):
        if ref._key(sample.pattern_descriptors['pgrp'][k]) != pg[u] or \
                sample.pattern_descriptors['pextra'][k] != f'y{u}':
            ctx.fail(check, dict(sig, what='pattern_descriptors'), f'descriptor values of condition uid {u} '
                     f'changed', wit())
            return False
    # every entry equals the source entry of the same RDM and the same two original conditions
    mats = sample.get_matrices()
    n = len(puid_s)
    for k, r in enumerate(ruid_s):
        for i in range(n):
            for j in range(i + 1, n):
                got = mats[k, i, j]
                if puid_s[i] == puid_s[j]:
                    ctx.count('nan_entries_checked')
                    if not np.isnan(got):
                        ctx.fail(check, dict(sig, what='copy_pair_not_nan'), f'entry pairing two copies of '
                                 f'condition uid {puid_s[i]} is {got!r}, expected NaN', wit())
                        return False
                else:
                    want = expected_value(meta, r, puid_s[i], puid_s[j])
                    if np.isnan(got) or got != want or mats[k, j, i] != want:
                        ctx.fail(check, dict(sig, what='entry_value'), f'entry (rdm uid {r}, conditions '
                                 f'{puid_s[i]},{puid_s[j]}) is {got!r}, source value {want!r}', wit())
                        return False
    if len(set(ruid_s)) < len(ruid_s) or len(set(puid_s)) < len(puid_s):
        ctx.count('samples_with_repeats')
    return True


def check_draws(ctx, check, sig, events, idx, select, wit):
    """the recorded randint draw indexes the sorted unique group values and produced idx"""
    draws = [e for e in events if e['fn'] == 'randint']
    ctx.count('rng_draws_observed', len(draws))
    sel_sorted = sorted(set(ref._key(v) for v in select), key=lambda x: (str(type(x)), x))
    want_n = len(sel_sorted)
    if len(idx) != want_n:
        ctx.fail(check, dict(sig, what='number_of_draws'), f'{len(idx)} groups drawn, but there are {want_n} '
                 f'distinct groups', wit())
        return None
    if not all(ref._key(v) in set(sel_sorted) for v in idx):
        ctx.fail(check, dict(sig, what='foreign_group'), f'drawn value not among the groups: {idx}', wit())
        return None
    for ev in draws:
        out = np.atleast_1d(ev['out'])
        if len(out) == want_n:
            uniq = np.unique(np.array(select))
            mapped = [ref._key(uniq[int(d)]) for d in out]
            if mapped == [ref._key(v) for v in idx]:
                return out
    ctx.fail(check, dict(sig, what='draw_mismatch'), 'returned indices are not unique_groups[recorded draws]',
             wit(draws=[np.atleast_1d(e['out']) for e in draws]))
    return None


def run_config(ctx, tap):
    rng = ctx.rng
    src, meta = make_source(rng)
    sig0 = dict(rdm_grouping=meta['rgk'], pattern_grouping=meta['pgk'], labels=meta['lk'],
                container=meta['cont'], derived_source=meta['derived'])
    wit0 = dict(ruid=meta['ruid'], puid=meta['puid'], rgrp=meta['rgrp'], pgrp=meta['pgrp'])
    np.random.seed(int(rng.integers(2 ** 31)))
    n_draws = ctx.n(4, 8)
    rdm_by = gen.pick(rng, ['grp', 'uid', 'index'])      # 'index' is the library's default descriptor
    pat_by = gen.pick(rng, ['pgrp', 'puid', 'index'])
    pred = RDMs(np.arange(src.dissimilarities.shape[1], dtype=float).reshape(1, -1) + 1,
                pattern_descriptors={k: list(v) for k, v in src.pattern_descriptors.items()})
    before = src.dissimilarities.copy()
    for d in range(n_draws):
        # --- both
        tap.take()
        sig = dict(sig0, routine='bootstrap_sample', by=f'{rdm_by}/{pat_by}')
        wit = lambda **k: dict(wit0, routine='bootstrap_sample', rdm_by=rdm_by, pat_by=pat_by, **k)  # noqa
        kwd = {}
        if rdm_by != 'index' or rng.integers(2):      # 'index' is the documented default: relying on it is the same
            kwd['rdm_descriptor'] = rdm_by
        if pat_by != 'index' or rng.integers(2):
            kwd['pattern_descriptor'] = pat_by
        ok, out = ctx.guarded('bootstrap_sample', sig, bootstrap_sample, src, data=wit, **kwd)
        ev = tap.take()
        if ok:
            sample, ridx, pidx = out
            ctx.case('bootstrap_sample', dict(sig, repeats=len(set(map(str, pidx))) < len(pidx)),
                     sample={'rdm_idx': list(map(str, ridx)), 'pattern_idx': list(map(str, pidx)),
                             'rdm_groups': list(map(str, meta['rgrp'])), 'cond_groups': list(map(str, meta['pgrp']))})
            w2 = lambda **k: wit(rdm_idx=ridx, pattern_idx=pidx, **k)  # noqa: E731
            check_draws(ctx, 'bootstrap_sample', sig, ev, ridx, src.rdm_descriptors[rdm_by], w2)
            check_draws(ctx, 'bootstrap_sample', sig, ev, pidx, src.pattern_descriptors[pat_by], w2)
            if check_sample(ctx, 'bootstrap_sample', sig, sample, meta, list(ridx), list(pidx), rdm_by, pat_by, w2):
                # resampling a prediction with the returned indices: same condition order as the sample
                ctx.case('prediction_alignment', sig)
                ps = pred.subsample_pattern(pat_by, pidx)
                if [int(v) for v in ps.pattern_descriptors['puid']] != \
                        [int(v) for v in sample.pattern_descriptors['puid']]:
                    ctx.fail('prediction_alignment', sig, 'prediction resampled with the returned pattern_idx '
                             'has another condition order than the sample', w2())
        # --- rdm only
        tap.take()
        sig = dict(sig0, routine='bootstrap_sample_rdm', by=rdm_by)
        wit = lambda **k: dict(wit0, routine='bootstrap_sample_rdm', rdm_by=rdm_by, **k)  # noqa: E731
        kwd = {'rdm_descriptor': rdm_by} if (rdm_by != 'index' or rng.integers(2)) else {}
        ok, out = ctx.guarded('bootstrap_sample_rdm', sig, bootstrap_sample_rdm, src, data=wit, **kwd)
        ev = tap.take()
        if ok:
            sample, ridx = out
            ctx.case('bootstrap_sample_rdm', dict(sig, repeats=len(set(map(str, ridx))) < len(ridx)))
            w2 = lambda **k: wit(rdm_idx=ridx, **k)  # noqa: E731
            check_draws(ctx, 'bootstrap_sample_rdm', sig, ev, ridx, src.rdm_descriptors[rdm_by], w2)
            check_sample(ctx, 'bootstrap_sample_rdm', sig, sample, meta, list(ridx), None, rdm_by, pat_by, w2)
        # --- pattern only
        tap.take()
        sig = dict(sig0, routine='bootstrap_sample_pattern', by=pat_by)
        wit = lambda **k: dict(wit0, routine='bootstrap_sample_pattern', pat_by=pat_by, **k)  # noqa: E731
        kwd = {'pattern_descriptor': pat_by} if (pat_by != 'index' or rng.integers(2)) else {}
        ok, out = ctx.guarded('bootstrap_sample_pattern', sig, bootstrap_sample_pattern, src, data=wit, **kwd)
        ev = tap.take()
        if ok:
            sample, pidx = out
            ctx.case('bootstrap_sample_pattern', dict(sig, repeats=len(set(map(str, pidx))) < len(pidx)))
            w2 = lambda **k: wit(pattern_idx=pidx, **k)  # noqa: E731
            check_draws(ctx, 'bootstrap_sample_pattern', sig, ev, pidx, src.pattern_descriptors[pat_by], w2)
            if check_sample(ctx, 'bootstrap_sample_pattern', sig, sample, meta, None, list(pidx), rdm_by, pat_by, w2):
                ctx.case('prediction_alignment', sig)
                ps = pred.subsample_pattern(pat_by, pidx)
                if [int(v) for v in ps.pattern_descriptors['puid']] != \
                        [int(v) for v in sample.pattern_descriptors['puid']]:
                    ctx.fail('prediction_alignment', sig, 'prediction order differs from sample order', w2())
        # --- the source is a live object: between two draws the user may reorder it in place (documented in-place
        # operations).  Later samples must be drawn from the object as it is *now* (unique ids tell which condition
        # sits where; the expected values are looked up by id, never by position)
        if d < n_draws - 1 and rng.integers(3) == 0:
            old_puid = list(meta['puid'])
            how = gen.pick(rng, ['reorder', 'sort_by', 'rescale_values'])
            try:
                if how == 'rescale_values':
                    src.dissimilarities *= 2            # the user edits the values in place (exact for floats and integers)
                    meta['scale'] *= 2.0
                elif how == 'reorder':
                    src.reorder([int(i) for i in rng.permutation(meta['n_cond'])])
                else:
                    src.sort_by(pextra='alpha')
            except Exception as exc:
                ctx.notes.append(f'in-place {how} of the source raised {exc!r}')
                return
            new_puid = [int(v) for v in src.pattern_descriptors['puid']]
            if sorted(new_puid) != sorted(old_puid):
                ctx.notes.append('in-place reorder changed the set of condition ids (C10 territory)')
                return
            perm = [old_puid.index(u) for u in new_puid]
            meta['puid'] = new_puid
            meta['pgrp'] = [meta['pgrp'][i] for i in perm]
            meta['pindex'] = [int(v) for v in src.pattern_descriptors['index']]
            wit0 = dict(wit0, puid=meta['puid'], pgrp=meta['pgrp'], reordered_in_place=how)
            sig0 = dict(sig0, source_reordered=True)
            pred = RDMs(np.arange(src.dissimilarities.shape[1], dtype=float).reshape(1, -1) + 1,
                        pattern_descriptors={k: list(v) for k, v in src.pattern_descriptors.items()})
            before = src.dissimilarities.copy()
            ctx.count('source_reordered_between_draws')
    # --- direct subsample / subsample_pattern with explicit values (list / array / scalar)
    rvals = sorted(set(ref._key(v) for v in src.rdm_descriptors[rdm_by]), key=str)
    pvals = sorted(set(ref._key(v) for v in src.pattern_descriptors[pat_by]), key=str)
    sel = [rvals[int(i)] for i in rng.integers(0, len(rvals), size=int(rng.integers(1, len(rvals) + 2)))]
    form = gen.pick(rng, ['list', 'array', 'scalar'])
    arg = sel if form == 'list' else (np.array(sel) if form == 'array' else sel[0])
    if form == 'scalar':
        sel = [sel[0]]
    sig = dict(sig0, routine='subsample', form=form)
    wit = lambda **k: dict(wit0, routine='subsample', by=rdm_by, value=sel, **k)  # noqa: E731
    ok, sample = ctx.guarded('subsample', sig, src.subsample, rdm_by, arg, data=wit)
    if ok:
        ctx.case('subsample', sig)
        check_sample(ctx, 'subsample', sig, sample, meta, sel, None, rdm_by, pat_by, wit)
    selp = [pvals[int(i)] for i in rng.integers(0, len(pvals), size=int(rng.integers(2, len(pvals) + 2)))]
    form = gen.pick(rng, ['list', 'array', 'scalar'])
    argp = selp if form == 'list' else (np.array(selp) if form == 'array' else selp[0])
    if form == 'scalar':
        selp = [selp[0]]
    sig = dict(sig0, routine='subsample_pattern', form=form)
    wit = lambda **k: dict(wit0, routine='subsample_pattern', by=pat_by, value=selp, **k)  # noqa: E731
    n_sel = sum(1 for g in {'pgrp': meta['pgrp'], 'puid': meta['puid'], 'index': meta['pindex']}[pat_by]
                for v in selp if ref._key(g) == v)
    if n_sel >= 2:
        ok, sample = ctx.guarded('subsample_pattern', sig, src.subsample_pattern, pat_by, argp, data=wit)
        if ok:
            ctx.case('subsample_pattern', sig)
            check_sample(ctx, 'subsample_pattern', sig, sample, meta, None, selp, rdm_by, pat_by, wit)
    if not np.array_equal(src.dissimilarities, before):
        ctx.fail('bootstrap_sample', dict(sig0, what='source_modified'), 'bootstrap routines modified the source', wit0)


def run_uniformity(ctx, tap):
    """chi-square on recorded draws: each group equally often on average"""
    rng = ctx.rng
    src, meta = make_source(rng)
    np.random.seed(int(rng.integers(2 ** 31)))
    reps = ctx.n(700, 2000)
    for routine, by, desc in (('bootstrap_sample_rdm', 'grp', src.rdm_descriptors['grp']),
                              ('bootstrap_sample_pattern', 'pgrp', src.pattern_descriptors['pgrp']),
                              ('bootstrap_sample', 'both', None)):
        counts_r, counts_p = {}, {}
        for _ in range(reps):
            if routine == 'bootstrap_sample_rdm':
                _, idx = bootstrap_sample_rdm(src, rdm_descriptor='grp')
                for v in idx:
                    counts_r[ref._key(v)] = counts_r.get(ref._key(v), 0) + 1
            elif routine == 'bootstrap_sample_pattern':
                _, idx = bootstrap_sample_pattern(src, pattern_descriptor='pgrp')
                for v in idx:
                    counts_p[ref._key(v)] = counts_p.get(ref._key(v), 0) + 1
            else:
                _, ri, pi = bootstrap_sample(src, rdm_descriptor='grp', pattern_descriptor='pgrp')
                for v in ri:
                    counts_r[ref._key(v)] = counts_r.get(ref._key(v), 0) + 1
                for v in pi:
                    counts_p[ref._key(v)] = counts_p.get(ref._key(v), 0) + 1
        ctx.count('rng_draws_observed', len(tap.take()))
        for which, counts, groups in (('rdm', counts_r, set(meta['rgrp'])), ('pattern', counts_p, set(meta['pgrp']))):
            if not counts:
                continue
            k = len(groups)
            if k < 2:
                continue
            obs = np.array([counts.get(g, 0) for g in groups], dtype=float)
            exp = obs.sum() / k
            chi2 = float(((obs - exp) ** 2 / exp).sum())
            thr = float(scipy.stats.chi2.ppf(1 - 1e-9, k - 1))
            sig = dict(routine=routine, what=which, rdm_grouping=meta['rgk'], pattern_grouping=meta['pgk'],
                       labels=meta['lk'])
            ctx.case('uniformity', sig, sample={'routine': routine, 'groups': k, 'draws': int(obs.sum()),
                                                'chi2': chi2, 'threshold': thr})
            if chi2 > thr:
                ctx.fail('uniformity', sig, f'{which} groups not drawn equally often: counts {obs.tolist()}, '
                         f'chi2 {chi2:.1f} > {thr:.1f}', dict(counts={str(g): counts.get(g, 0) for g in groups}))


def run(ctx):
    n = ctx.n(60, 900)
    with RngTap() as tap:
        for it in range(n):
            if ctx.out_of_time():
                ctx.notes.append(f'time budget reached after {it} configurations')
                break
            run_config(ctx, tap)
            if it % 15 == 0:
                run_uniformity(ctx, tap)
