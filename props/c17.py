"""C17  RDM transforms mean what they say; measures are invariant as theory dictates.

Monitor: result monitor on rsatoolbox.rdm.*_transform and on compare() before/after maps.
Oracle: direct formulas (scipy rankdata per RDM, sqrt(max(x,0)), max(x,0), per-RDM affine min-max,
clipped-linear map with thresholds computed once from the input, Floyd-Warshall on the min-max
graph without its maximal edges, custom function) + metamorphic invariances of the measures.
"""
import numpy as np
import scipy.stats

from rsatoolbox.rdm import RDMs, compare
import rsatoolbox.rdm  # noqa: F401
import sys
T = sys.modules['rsatoolbox.rdm.transform']  # the name rdm.transform is shadowed by the function
from vlib import gen, ref
from vlib.core import close, maxdiff

LEVEL = 'exploration'
LEVEL_TEXT = ('Seeded exploration of the real transform functions and of compare() under a result monitor: '
              'each transform output is compared entry-wise with the direct formula (descriptors and measure '
              'name included), and each measure is re-evaluated after strictly increasing / scaling / affine '
              'maps of its arguments. Held on the K executions observed.')
LEVEL_NOTE = ('Trusted: scipy.stats.rankdata and a 10-line Floyd-Warshall in the reference. Geo-topological '
              'thresholds are the quantiles of the whole input stack (as the function documents). Monotone '
              'maps are only used when they are strictly increasing in floating point on the sampled values '
              '(rank vectors compared before/after; otherwise the case is counted as rejected).')
DESIGN_REF = 'DESIGN.md section 4 / C17'
TECHNIQUE = 'runtime result monitor vs direct formulas + metamorphic invariance of measures'
RULE = ('seeded generator over {transform x value class (positive/ties/negative/NaN-bearing) x stack size x '
        'n_cond x parameters (rank method, quantile pair)} and {measure family x map kind}; non-trivial: '
        'non-constant RDMs; distinct = configuration signature')
ASSUMPTIONS = ['constant RDMs excluded for minmax / geodesic (division by zero in the definition)',
               'quantile thresholds with low < up and distinct values',
               'NaN-bearing stacks only for rank_transform (the only transform documented to support them)']
TRANSFORMS = ['rank', 'sqrt', 'positive', 'minmax', 'geotopological', 'geodesic', 'custom']
REQUIRED = ['check:transform:' + t for t in TRANSFORMS] + \
           ['check:invariance:rank', 'check:invariance:cosine', 'check:invariance:corr',
            'check:descriptors', 'check:sqrt_keeps_rank_evaluation']
REACH = ['rank_transform', 'sqrt_transform', 'positive_transform', 'minmax_transform',
         'geotopological_transform', 'geodesic_transform', 'transform', 'compare']
FAIL_KEYS = ['transform', 'measure', 'map', 'small_scale', 'has_zero_edge', 'int_storage']
TIME_BUDGET = {'quick': 60, 'thorough': 600}


def floyd(w):
    n = w.shape[0]
    d = w.copy()
    for k in range(n):
        d = np.minimum(d, d[:, [k]] + d[[k], :])
    return d


def geodesic_ref(vec, n):
    mn, mx = vec.min(), vec.max()
    v = (vec - mn) / (mx - mn)
    w = np.full((n, n), np.inf)
    np.fill_diagonal(w, 0.0)
    iu = np.triu_indices(n, 1)
    for (a, b, val) in zip(iu[0], iu[1], v):
        if val != 1:
            w[a, b] = w[b, a] = val
    d = floyd(w)
    return d[iu]


def make_rdms(rng, kind=None, n_rdm=None, n_cond=None, nan=False):
    n_cond = n_cond or int(rng.integers(3, 9))
    n_rdm = n_rdm or int(rng.integers(1, 5))
    kind = kind or gen.pick(rng, ['pos', 'ties', 'neg', 'eucl', 'small'])
    if kind == 'small':
        v = rng.uniform(0.001, 0.08, size=(n_rdm, n_cond * (n_cond - 1) // 2))
    else:
        v = gen.rdm_vectors(rng, n_rdm, n_cond, kind)
    if nan:
        k = int(rng.integers(1, max(2, v.shape[1] // 3)))
        cols = rng.choice(v.shape[1], size=k, replace=False)
        v[:, cols] = np.nan
    lk = gen.pick(rng, gen.LABEL_KINDS)
    pd = {'cond': gen.wrap(gen.labels(rng, n_cond, lk), gen.pick(rng, gen.CONTAINERS)),
          'group': [int(i) % 2 for i in range(n_cond)]}
    rd = {'subj': [f's{i}' for i in range(n_rdm)], 'w': [float(i) + 0.5 for i in range(n_rdm)]}
    meas = gen.pick(rng, [None, 'squared euclidean', 'squared mahalanobis', 'correlation', 'crossnobis'])
    desc = {'session': 3, 'note': 'abc'}
    return v, dict(kind=kind, n_cond=n_cond, n_rdm=n_rdm, pd=pd, rd=rd, meas=meas, desc=desc)


def build(v, meta):
    import copy
    return gen.derived_cycle(RDMs(v.copy(), dissimilarity_measure=meta['meas'], descriptors=copy.deepcopy(meta['desc']),
                                  rdm_descriptors=copy.deepcopy(meta['rd']), pattern_descriptors=copy.deepcopy(meta['pd'])))


def desc_equal(a, b):
    if set(a.keys()) != set(b.keys()):
        return False
    for k in a:
        x, y = a[k], b[k]
        try:
            if len(x) != len(y) or any(str(p) != str(q) for p, q in zip(x, y)):
                return False
        except TypeError:
            if x != y:
                return False
    return True


def expected_measure(tname, meas):
    if tname == 'rank':
        m = meas or ''
        return m if '(ranks)' in m else (m + ' (ranks)').strip()
    if tname == 'sqrt':
        if meas is None:
            return None  # any name mentioning sqrt
        return {'squared euclidean': 'euclidean', 'squared mahalanobis': 'mahalanobis'}.get(meas)
    if tname == 'positive':
        return meas
    return None


def run_transform(ctx, tname):
    rng = ctx.rng
    # missing entries (partial RDMs, a pattern bootstrap) stay missing under the element-wise transforms
    nan = (tname == 'rank' and bool(rng.integers(2))) or (tname in ('sqrt', 'positive') and bool(rng.integers(3) == 0))
    # (rank transforms see tied whole-number RDMs half of the time: tie-averaged ranks end in .5)
    v, meta = make_rdms(rng, nan=nan, kind='ties' if tname == 'rank' and rng.integers(2) else None)
    params = {}
    if tname in ('minmax', 'geodesic', 'geotopological'):
        if any(np.ptp(r) < 1e-9 for r in v):
            ctx.count('rejected_degenerate')
            return
    if tname == 'geodesic' and rng.integers(3) == 0:
        # integer-valued RDMs whose range r has an inexact reciprocal (r * (1/r) != 1 in floating point, e.g. 49): the
        # maximal entry must still be recognised as maximal, whatever way the normalisation is computed
        bad = [r for r in range(2, 400) if r * (1.0 / r) != 1.0]
        n = meta['n_cond']
        iu0 = np.triu_indices(n, 1)
        for row in v:
            r = int(gen.pick(rng, bad))
            if n >= 4 and rng.integers(2):
                # all other dissimilarities large (> 0.6 of the range): every detour around the maximal edge is longer
                # than 1, so leaving that edge in the graph changes the geodesic distance of its pair
                row[:] = rng.integers(1 + int(np.ceil(0.6 * r)), r + 1, size=row.shape).astype(float)
                a, b = sorted(int(x) for x in rng.choice(n, size=2, replace=False))
                rest = [x for x in range(n) if x not in (a, b)]
                c, d = sorted(rest[:2])
                row[(iu0[0] == a) & (iu0[1] == b)] = float(1 + r)
                row[(iu0[0] == c) & (iu0[1] == d)] = 1.0
            else:
                row[:] = rng.integers(1, r + 2, size=row.shape).astype(float)
                i, j = rng.choice(len(row), size=2, replace=False)
                row[i], row[j] = 1.0, float(1 + r)
        meta['kind'] = 'int_range'
    if tname in ('minmax', 'geodesic') and rng.integers(4) == 0 and not nan:
        # ratings on a -100 ... +100 scale: they fit a signed byte, their range does not
        v = rng.integers(-100, 101, size=v.shape).astype(float)
        for row in v:
            row[int(rng.integers(row.size))], row[int(rng.integers(row.size))] = -100.0, 100.0
        meta['kind'] = 'byte_range'
    if tname == 'geodesic' and meta['kind'] not in ('int_range',) and rng.integers(3) == 0:
        # the maximum is attained by several pairs (categorical models, ratings): ALL maximal edges leave the graph
        for row in v:
            jj = rng.choice(row.size, size=min(row.size, int(rng.integers(2, 4))), replace=False)
            row[jj] = row.max()
        meta['kind'] = meta['kind'] + '+tied_max'
        if any(np.ptp(r) < 1e-9 for r in v):
            ctx.count('rejected_degenerate')      # every pair maximal: a constant RDM has no min-max form
            return
    if tname == 'rank':
        params['method'] = gen.pick(rng, ['average', 'average', 'average', 'min', 'max', 'dense', 'ordinal'])
    if tname == 'geotopological':
        low = float(gen.pick(rng, [0.0, 0.05, 0.1, 0.2, 0.3]))
        up = float(gen.pick(rng, [0.6, 0.7, 0.8, 0.9, 1.0]))
        params.update(low=low, up=up)
        if np.quantile(v, up) - np.quantile(v, low) < 1e-9:
            ctx.count('rejected_degenerate')
            return
    sig = dict(transform=tname, values=meta['kind'], nan=nan, n_rdm=meta['n_rdm'],
               small_scale=meta['kind'] == 'small', meas=str(meta['meas']), **{k: params[k] for k in params})
    # whole-number dissimilarities (ordinal judgements, counts) are often stored with an integer dtype: the transform
    # of the same numbers must not depend on how they are stored
    # single-precision storage (with missing entries) for the rank transform: ranks do not depend on the width of the
    # floats -- the reference ranks the values as they are stored
    f32 = bool(tname == 'rank' and nan and rng.integers(2))
    if f32:
        v = v.astype(np.float32).astype(float)
    int_storage = bool(not nan and np.all(v == np.round(v)) and np.all(np.abs(v) < 2 ** 40) and rng.integers(2))
    sig['int_storage'] = int_storage
    rd = build(v.astype(np.int8 if meta['kind'] == 'byte_range' else np.int64) if int_storage else
               (v.astype(np.float32) if f32 else v), meta)
    wit = lambda **k: dict(transform=tname, v=v, params=params, measure=meta['meas'], int_storage=int_storage, **k)  # noqa: E731
    if tname == 'rank':
        call = lambda: T.rank_transform(rd, **params)  # noqa: E731
        want = np.array([scipy.stats.rankdata(r, method=params['method'], nan_policy='omit') for r in v])
    elif tname == 'sqrt':
        call = lambda: T.sqrt_transform(rd)  # noqa: E731
        want = np.sqrt(np.maximum(v, 0))
    elif tname == 'positive':
        call = lambda: T.positive_transform(rd)  # noqa: E731
        want = np.maximum(v, 0)
    elif tname == 'minmax':
        call = lambda: T.minmax_transform(rd)  # noqa: E731
        want = np.array([(r - r.min()) / (r.max() - r.min()) for r in v])
    elif tname == 'geotopological':
        call = lambda: T.geotopological_transform(rd, params['low'], params['up'])  # noqa: E731
        lo, hi = np.quantile(v, params['low']), np.quantile(v, params['up'])
        want = np.clip((v - lo) / (hi - lo), 0, 1)
    elif tname == 'geodesic':
        call = lambda: T.geodesic_transform(rd)  # noqa: E731
        want = np.array([geodesic_ref(r, meta['n_cond']) for r in v])
        sig['has_zero_edge'] = True
    else:
        fkind = gen.pick(rng, ['square', 'plus1', 'exp'])
        fun = {'square': lambda x: x ** 2, 'plus1': lambda x: x + 1.0, 'exp': lambda x: np.exp(x / 4)}[fkind]
        sig['fun'] = fkind
        call = lambda: T.transform(rd, fun)  # noqa: E731
        want = fun(v)
    ok, out = ctx.guarded('transform:' + tname, sig, call, data=wit)
    if not ok:
        return
    ctx.case('transform:' + tname, sig, sample={'transform': tname, 'params': params, 'first_rdm': v[0]})
    got = out.dissimilarities
    if got.shape != want.shape or not close(got, want, 1e-10, 1e-12):
        ctx.fail('transform:' + tname, sig, f'{tname}: output differs from the direct formula; maxdiff '
                 f'{maxdiff(got, want)}', wit(got=got, want=want))
    # descriptors + measure name
    ctx.case('descriptors', dict(transform=tname))
    ref_obj = build(v, meta)
    if not (desc_equal({k: [x] for k, x in out.descriptors.items()},
                       {k: [x] for k, x in ref_obj.descriptors.items()})
            and desc_equal(out.rdm_descriptors, ref_obj.rdm_descriptors)
            and desc_equal(out.pattern_descriptors, ref_obj.pattern_descriptors)):
        ctx.fail('descriptors', dict(transform=tname), 'result descriptors differ from the source\'s',
                 wit(got=dict(d=out.descriptors, r=out.rdm_descriptors, p=out.pattern_descriptors)))
    em = expected_measure(tname, meta['meas'])
    nm = out.dissimilarity_measure
    if tname in ('rank', 'positive') or (tname == 'sqrt' and em is not None):
        if nm != em:
            ctx.fail('descriptors', dict(transform=tname, aspect='measure_name'),
                     f'measure name {nm!r}, expected {em!r}', wit())
    elif nm is None or nm == meta['meas']:
        ctx.fail('descriptors', dict(transform=tname, aspect='measure_name'),
                 f'measure name not updated: {nm!r}', wit())
    # the source object still holds its values (transform returns a new object)
    if not np.array_equal(rd.dissimilarities, v, equal_nan=True):
        ctx.fail('transform:' + tname, dict(sig, aspect='source_modified'),
                 f'{tname}_transform modified the source RDMs', wit())


RANK_MEASURES = ['spearman', 'rho-a', 'tau-a', 'kendall']
COS_MEASURES = ['cosine', 'cosine_cov']
CORR_MEASURES = ['corr', 'corr_cov']


def strictly_increasing_ok(before, after):
    for b, a in zip(before, after):
        if not np.array_equal(scipy.stats.rankdata(b), scipy.stats.rankdata(a)):
            return False
    return True


def run_invariance(ctx):
    rng = ctx.rng
    n_cond = int(rng.integers(3, 8))
    kind = gen.pick(rng, ['pos', 'ties', 'eucl'])
    v1 = gen.rdm_vectors(rng, int(rng.integers(1, 4)), n_cond, kind)
    v2 = gen.rdm_vectors(rng, int(rng.integers(1, 4)), n_cond, gen.pick(rng, ['pos', 'ties', 'neg']))
    if any(np.ptp(r) < 1e-9 for r in list(v1) + list(v2)):
        ctx.count('rejected_degenerate')
        return
    # rank family: strictly increasing maps of either argument (bitwise)
    maps = {'exp': lambda x: np.exp(x / 3.0), 'cubic': lambda x: x ** 3 + 2 * x,
            'sqrt': lambda x: np.sqrt(x), 'affine': lambda x: 2.5 * x + 1.0,
            # changes of unit and compressing maps: still strictly increasing (checked in floating point below), the
            # values just become small or close together
            'tiny_unit': lambda x: x * 1e-12, 'huge_unit': lambda x: x * 1e9, 'compress': lambda x: 1.0 + 1e-7 * x,
            'si_unit': lambda x: x * 1e-26}     # squared MEG distances in T^2
    mk = gen.pick(rng, list(maps))
    side = int(rng.integers(2))
    src = v1 if side == 0 else v2
    if mk == 'sqrt' and np.any(src < 0):
        mk = 'cubic'
    mapped = maps[mk](src)
    if not strictly_increasing_ok(src, mapped):
        ctx.count('rejected_not_strictly_increasing_in_fp')
    else:
        for m in RANK_MEASURES:
            sig = dict(measure=m, map=mk, side=side, values=kind)
            a, b = (mapped, v2) if side == 0 else (v1, mapped)
            ok, base = ctx.guarded('invariance:rank', sig, compare, RDMs(v1.copy()), RDMs(v2.copy()), method=m)
            ok2, aft = ctx.guarded('invariance:rank', sig, compare, RDMs(a.copy()), RDMs(b.copy()), method=m)
            if ok and ok2:
                ctx.case('invariance:rank', sig)
                if not np.array_equal(np.asarray(base), np.asarray(aft)):
                    ctx.fail('invariance:rank', sig, f'{m} changed under the strictly increasing map {mk}: '
                             f'maxdiff {maxdiff(base, aft)}', dict(v1=v1, v2=v2, map=mk, side=side))
    # sqrt_transform of non-negative RDMs never changes a rank-based evaluation
    if np.all(v1 >= 0):
        s1 = T.sqrt_transform(RDMs(v1.copy()))
        if strictly_increasing_ok(v1, s1.dissimilarities):
            for m in RANK_MEASURES:
                sig = dict(measure=m, map='sqrt_transform')
                base = compare(RDMs(v1.copy()), RDMs(v2.copy()), method=m)
                aft = compare(s1, RDMs(v2.copy()), method=m)
                ctx.case('sqrt_keeps_rank_evaluation', sig)
                if not np.array_equal(np.asarray(base), np.asarray(aft)):
                    ctx.fail('sqrt_keeps_rank_evaluation', sig, f'{m} changed after sqrt_transform: '
                             f'{maxdiff(base, aft)}', dict(v1=v1, v2=v2))
    # the library's own monotone transforms as the map, applied to RDMs objects (names and all):
    # rank_transform with a tie-preserving method is strictly increasing on the values
    meth = gen.pick(rng, ['average', 'min', 'max', 'dense'])
    pd = {'cond': [f'c{i}' for i in range(n_cond)]}
    o1 = RDMs(v1.copy(), pattern_descriptors={'cond': list(pd['cond'])}, dissimilarity_measure='euclidean')
    o2 = RDMs(v2.copy(), pattern_descriptors={'cond': list(pd['cond'])}, dissimilarity_measure='euclidean')
    r1 = T.rank_transform(o1, method=meth)
    sub = sorted(rng.choice(n_cond, size=int(rng.integers(3, n_cond + 1)), replace=False).tolist())
    subl = [f'c{i}' for i in sub]
    for m in RANK_MEASURES:
        sig = dict(measure=m, map='rank_transform:' + meth)
        ok, base = ctx.guarded('invariance:rank', sig, compare, o1, o2, method=m)
        ok2, aft = ctx.guarded('invariance:rank', sig, compare, r1, o2, method=m)
        ok3, aft_r = ctx.guarded('invariance:rank', sig, compare, o2, r1, method=m)
        if ok and ok2 and ok3:
            ctx.case('invariance:rank', sig)
            if not (np.array_equal(np.asarray(base), np.asarray(aft))
                    and close(np.asarray(base).T, np.asarray(aft_r), 1e-12, 1e-13)):
                ctx.fail('invariance:rank', sig, f'{m} changed after rank_transform(method={meth!r}) of one '
                         f'argument: {maxdiff(base, aft)}', dict(v1=v1, v2=v2, method=meth))
        # ... and after taking the same subset of conditions of transformed and untransformed RDMs
        sig = dict(measure=m, map='rank_transform+subset')
        s1, s2, sr = (o1.subset_pattern('cond', subl), o2.subset_pattern('cond', subl),
                      r1.subset_pattern('cond', subl))
        if any(np.ptp(r) < 1e-9 for r in list(s1.dissimilarities) + list(s2.dissimilarities)):
            continue
        ok, base = ctx.guarded('invariance:rank', sig, compare, s1, s2, method=m)
        ok2, aft = ctx.guarded('invariance:rank', sig, compare, sr, s2, method=m)
        if ok and ok2:
            ctx.case('invariance:rank', sig)
            if not np.array_equal(np.asarray(base), np.asarray(aft)):
                ctx.fail('invariance:rank', sig, f'{m} on a condition subset changed after rank_transform: '
                         f'{maxdiff(base, aft)}', dict(v1=v1, v2=v2, method=meth, subset=sub))
    # the RDMs object compared above receives new values in place (same shape): a rank-based comparison ranks the values
    # the object holds now
    v_new = gen.rdm_vectors(rng, v1.shape[0], n_cond, 'pos')
    if not any(np.ptp(r) < 1e-9 for r in v_new):
        o1.dissimilarities[:] = v_new
        for m in RANK_MEASURES:
            sig = dict(measure=m, map='values_rewritten_in_place')
            ok, got = ctx.guarded('invariance:rank', sig, compare, o1, o2, method=m)
            ok2, want = ctx.guarded('invariance:rank', sig, compare, RDMs(v_new.copy()), RDMs(v2.copy()), method=m)
            if ok and ok2:
                ctx.case('invariance:rank', sig)
                if not close(np.asarray(got), np.asarray(want), 1e-12, 1e-13):
                    ctx.fail('invariance:rank', sig, f'{m} of an object whose values were rewritten in place after an earlier '
                             f'comparison differs from the value for fresh objects: {maxdiff(got, want)}',
                             dict(v1=v1, v_new=v_new, v2=v2))
    # cosine family: positive scaling of either argument
    sc = float(rng.uniform(0.05, 20))
    if rng.integers(3) == 0:
        sc = 10.0 ** float(gen.pick(rng, [-10, -8, -6, 6, 9]))      # change of physical units
    sig_s = gen.spd(rng, n_cond, 20.0) if rng.integers(2) else None
    for m in COS_MEASURES:
        kw = {'sigma_k': sig_s} if m.endswith('_cov') else {}
        sig = dict(measure=m, map='scale', sigma='matrix' if (sig_s is not None and kw) else 'none')
        ok, base = ctx.guarded('invariance:cosine', sig, compare, RDMs(v1.copy()), RDMs(v2.copy()), method=m, **kw)
        a, b = (v1 * sc, v2) if side == 0 else (v1, v2 * sc)
        ok2, aft = ctx.guarded('invariance:cosine', sig, compare, RDMs(a), RDMs(b), method=m, **kw)
        if ok and ok2:
            ctx.case('invariance:cosine', sig)
            tol = 2e-4 if kw and sig_s is not None else 1e-9
            if not close(base, aft, tol, tol):
                ctx.fail('invariance:cosine', sig, f'{m} changed under positive scaling by {sc}: '
                         f'{maxdiff(base, aft)}', dict(v1=v1, v2=v2, scale=sc, sigma_k=sig_s))
    # the same invariances for the valid RDMs of a stack that also holds a zero-norm RDM (an all-zero RDM for the
    # cosine family, a constant RDM -- e.g. a null model -- for the correlation family): the library takes another
    # code path then
    if rng.integers(3) == 0:
        off_d = float(rng.uniform(-5, 5)) * (sc if (sc < 1e-3 or sc > 1e3) else 1.0)
        for fam, measures in (('cosine', COS_MEASURES), ('corr', CORR_MEASURES)):
            row = np.zeros((1, v1.shape[1])) if fam == 'cosine' else np.full((1, v1.shape[1]), float(rng.uniform(0.5, 3)))
            pos = int(rng.integers(v1.shape[0] + 1))
            v1d = np.concatenate([v1[:pos], row, v1[pos:]])
            v2m = v2 * sc if fam == 'cosine' else v2 * sc + off_d
            for m in measures:
                sig = dict(measure=m, map='scale' if fam == 'cosine' else 'affine', sigma='none', beside_degenerate=True)
                ok, base = ctx.guarded('invariance:' + fam, sig, compare, RDMs(v1d.copy()), RDMs(v2.copy()), method=m)
                ok2, aft = ctx.guarded('invariance:' + fam, sig, compare, RDMs(v1d.copy()), RDMs(v2m.copy()), method=m)
                ok3, aft_t = ctx.guarded('invariance:' + fam, sig, compare, RDMs(v2m.copy()), RDMs(v1d.copy()), method=m)
                if ok and ok2 and ok3:
                    ctx.case('invariance:' + fam, sig)
                    tol = 2e-4 if m.endswith('_cov') else 1e-8
                    valid = [i for i in range(v1d.shape[0]) if i != pos]
                    if not close(np.asarray(base)[valid], np.asarray(aft)[valid], tol, tol) or \
                            not close(np.asarray(base)[valid], np.asarray(aft_t).T[valid], tol, tol):
                        ctx.fail('invariance:' + fam, dict(sig, what='beside_degenerate'), f'{m}: values of the valid RDMs '
                                 f'changed under a positive {"scaling" if fam == "cosine" else "affine map"} of the other '
                                 f'stack when a zero-norm RDM is in the stack: {maxdiff(np.asarray(base)[valid], np.asarray(aft)[valid])}',
                                 dict(v1=v1d, v2=v2, scale=sc, offset=off_d if fam == 'corr' else 0.0))
    # correlation family: positive affine maps
    off = float(rng.uniform(-5, 5))
    if sc < 1e-3 or sc > 1e3:
        off = off * sc     # keep the offset commensurate with the values (x*1e-10 + 3 would cancel 10 digits)
    for m in CORR_MEASURES:
        kw = {'sigma_k': sig_s} if m.endswith('_cov') else {}
        sig = dict(measure=m, map='affine', sigma='matrix' if (sig_s is not None and kw) else 'none')
        ok, base = ctx.guarded('invariance:corr', sig, compare, RDMs(v1.copy()), RDMs(v2.copy()), method=m, **kw)
        a, b = (v1 * sc + off, v2) if side == 0 else (v1, v2 * sc + off)
        ok2, aft = ctx.guarded('invariance:corr', sig, compare, RDMs(a), RDMs(b), method=m, **kw)
        if ok and ok2:
            ctx.case('invariance:corr', sig)
            tol = 2e-4 if kw and sig_s is not None else 1e-8
            if not close(base, aft, tol, tol):
                ctx.fail('invariance:corr', sig, f'{m} changed under the positive affine map {sc}*x+{off}: '
                         f'{maxdiff(base, aft)}', dict(v1=v1, v2=v2, scale=sc, offset=off, sigma_k=sig_s))


def run_storage(ctx):
    """a categorical (0/1) model RDM is the same RDM whether it is stored as booleans, as small unsigned integers or as
    floats: every measure of it against a continuous stack is the same number (storage is the identity map -- the
    weakest of the strictly increasing / positive / affine maps the property speaks of)"""
    rng = ctx.rng
    n_cond = int(rng.integers(4, 8))
    n_pair = n_cond * (n_cond - 1) // 2
    cat = rng.integers(0, 2, size=(int(rng.integers(1, 3)), n_pair))
    if any(r.min() == r.max() for r in cat):
        ctx.count('rejected_degenerate')
        return
    other = gen.rdm_vectors(rng, int(rng.integers(1, 4)), n_cond, 'pos')
    as_obj = bool(rng.integers(2))
    wrap = (lambda a: RDMs(a.copy())) if as_obj else (lambda a: a.copy())
    for m in ('cosine', 'corr', 'spearman', 'rho-a', 'tau-a', 'kendall', 'cosine_cov', 'corr_cov'):
        sig = dict(measure=m, map='storage', objects=as_obj)
        wit = lambda **k: dict(cat=cat, other=other, measure=m, **k)  # noqa: E731
        ok, base = ctx.guarded('invariance:storage', sig, compare, wrap(cat.astype(float)), wrap(other), method=m, data=wit)
        if not ok:
            return
        for dt in (bool, np.uint8, np.int64):
            ok2, got = ctx.guarded('invariance:storage', dict(sig, dtype=np.dtype(dt).name), compare, wrap(cat.astype(dt)),
                                   wrap(other), method=m, data=wit)
            if not ok2:
                return
            ctx.case('invariance:storage', dict(sig, dtype=np.dtype(dt).name))
            if not close(np.asarray(got), np.asarray(base), 1e-12, 1e-12):
                ctx.fail('invariance:storage', dict(sig, what='storage_dependent'), f'{m} of a 0/1 RDM stored as '
                         f'{np.dtype(dt).name} is {np.asarray(got).tolist()}, stored as float64 {np.asarray(base).tolist()}',
                         wit(dtype=np.dtype(dt).name))
                return


def run(ctx):
    n = ctx.n(420, 4000)
    for it in range(n):
        if ctx.out_of_time():
            ctx.notes.append(f'time budget reached after {it} rounds')
            break
        run_transform(ctx, TRANSFORMS[it % len(TRANSFORMS)])
        if it % 20 == 0:
            run_storage(ctx)
        if it % 3 == 0:
            run_invariance(ctx)
