"""C14  Noise covariance is the pooled residual covariance; precision is its inverse.

Monitor: result monitor on rsatoolbox.data.noise.cov_from_* / prec_from_*; inputs handed over
read-only in a second run (in-place writes raise inside the library) and compared bitwise.
Oracle: textbook residual covariance R'R/dof around per-condition means; shrinkage estimates must
be expressible as lambda*T + (1-lambda)*S with one lambda in [0,1] (recovered by least squares).
"""
import numpy as np

from rsatoolbox.data import Dataset
from rsatoolbox.data import noise as N
from vlib import gen
from vlib.core import close, maxdiff

LEVEL = 'exploration'
LEVEL_TEXT = ('Seeded exploration of the real covariance / precision estimators under a result monitor: '
              'full and diag estimates are compared with the textbook residual covariance at the stated '
              'dof, shrinkage estimates are decomposed into lambda*target + (1-lambda)*sample with lambda '
              'in [0,1], symmetry / eigenvalues / prec@cov = I / list nesting / measurement-vs-unbalanced '
              'agreement / input immutability are asserted on every case. Held on the K executions observed.')
LEVEL_NOTE = ('Trusted: numpy linear algebra in the reference. The exact shrinkage intensity (Ledoit-Wolf / '
              'Schaefer-Strimmer formula) is NOT pinned, only that it is a convex weight, as the property '
              'states. prec@cov=I is checked when cond(cov) < 1e8.')
DESIGN_REF = 'DESIGN.md section 4 / C14'
TECHNIQUE = 'runtime result monitor vs textbook covariance + convex-combination decomposition + read-only inputs'
RULE = ('seeded generator over {input kind (residual matrix / list / 3-d stack / dataset balanced C!=R / '
        'unbalanced / list of datasets) x method x dof (None/scalar/list) x channels <,=,> samples x value '
        'class}; non-trivial: >=2 samples and non-constant data; distinct = configuration signature')
ASSUMPTIONS = ['zero-variance channels excluded for shrinkage_diag (correlation target undefined)',
               'prec@cov=I only checked for cond(cov) < 1e8']
METHODS = ['full', 'diag', 'shrinkage_eye', 'shrinkage_diag']
REQUIRED = ['check:residuals:' + m for m in METHODS] + \
           ['check:dataset_measurements', 'check:dataset_unbalanced', 'check:balanced_agreement',
            'check:list_nesting', 'check:precision_inverse', 'check:inputs_unmodified', 'check:readonly_inputs']
REACH = ['_check_demean', '_covariance_full', '_variance', '_covariance_eye', '_covariance_diag',
         'cov_from_residuals', 'cov_from_measurements', 'cov_from_unbalanced', 'prec_from_residuals',
         'prec_from_measurements', 'prec_from_unbalanced', 'Dataset.get_measurements_tensor']
FAIL_KEYS = ['method', 'kind', 'dof', 'one_channel', 'c_eq_r']
TIME_BUDGET = {'quick': 60, 'thorough': 600}


def sample_cov(resid, dof):
    r = np.asarray(resid, dtype=float)
    return r.T @ r / dof


def check_estimate(ctx, check, sig, got, resid, dof, method, wit):
    """got: library estimate; resid: residuals around the proper means (reference), dof stated"""
    got = np.asarray(got)
    p = resid.shape[1]
    s = sample_cov(resid, dof)
    scale = max(1e-300, float(np.abs(s).max()))
    if got.shape != (p, p):
        ctx.fail(check, sig, f'shape {got.shape}, expected {(p, p)}', wit())
        return False
    if np.isnan(got).any():
        ctx.fail(check, sig, 'estimate contains NaN', wit(got=got))
        return False
    if not close(got, got.T, 1e-10, 1e-12 * scale):
        ctx.fail(check, sig, 'estimate not symmetric', wit(got=got))
        return False
    if method == 'full':
        if not close(got, s, 1e-9, 1e-11 * scale):
            ctx.fail(check, sig, f'full estimate != R\'R/dof (dof={dof}): maxdiff {maxdiff(got, s)}; '
                     f'ratio got/ref of first diagonal entry {got[0, 0] / s[0, 0] if s[0, 0] else None}',
                     wit(got=got, want=s))
            return False
        return True
    if method == 'diag':
        want = np.diag(np.diag(s))
        if not close(got, want, 1e-9, 1e-11 * scale):
            ctx.fail(check, sig, f'diag estimate != diag(R\'R/dof): maxdiff {maxdiff(got, want)}',
                     wit(got=got, want=want))
            return False
        return True
    if method == 'shrinkage_eye':
        t = np.eye(p) * np.trace(s) / p
    else:
        t = np.diag(np.diag(s))
    den = float(np.sum((t - s) ** 2))
    if den <= (1e-12 * scale) ** 2 * p * p:
        lam = None
        want = s
    else:
        lam = float(np.sum((got - s) * (t - s)) / den)
        want = lam * t + (1 - lam) * s
    if not close(got, want, 1e-8, 1e-10 * scale):
        ctx.fail(check, sig, f'{method}: estimate is not lambda*T+(1-lambda)*S for any lambda '
                 f'(best lambda {lam}, residual {maxdiff(got, want)})', wit(got=got, s=s, t=t))
        return False
    if lam is not None and not (-1e-9 <= lam <= 1 + 1e-9):
        ctx.fail(check, sig, f'{method}: shrinkage intensity {lam} outside [0,1]', wit(got=got, s=s))
        return False
    ev = np.linalg.eigvalsh((got + got.T) / 2)
    if ev.min() < -1e-10 * scale:
        ctx.fail(check, sig, f'{method}: not positive semi-definite (min eigenvalue {ev.min()})', wit(got=got))
        return False
    if lam is not None and lam > 1e-6 and np.all(np.diag(s) > 1e-12 * scale) and ev.min() <= 0:
        ctx.fail(check, sig, f'{method}: shrinkage active (lambda={lam}) but estimate not positive definite',
                 wit(got=got))
        return False
    # with more channels than residual degrees of freedom the sample covariance is singular; on continuous data its
    # distance to the target and its sampling error are both non-zero at every magnitude, so the shrinkage is active
    # (intensity > 0; with only two samples, rank 1, all outer products coincide and the intensity is legitimately 0) and
    # the estimate positive definite -- an estimate equal to the singular sample covariance means the shrinkage was skipped
    if lam is not None and method == 'shrinkage_eye' and sig.get('kind') == 'residuals' and \
            p > np.linalg.matrix_rank(resid) >= 3 and sig.get('values') in ('normal', 'correlated', 'wide_small') \
            and np.all(np.diag(s) > 1e-12 * scale) and lam <= 1e-9:
        ctx.fail(check, dict(sig, what='shrinkage_skipped'), f'{method}: singular sample covariance ({p} channels, rank '
                 f'{np.linalg.matrix_rank(resid)}) but shrinkage intensity {lam}: the estimate is the singular sample '
                 f'covariance itself (data magnitude {scale ** 0.5:.1e})', wit(got=got))
        return False
    ctx.count('lambda_recovered' if lam is not None else 'target_equals_sample')
    return True


def check_prec(ctx, sig, prec, cov, wit):
    cov = np.asarray(cov)
    if np.isnan(cov).any() or np.linalg.cond(cov) > 1e8:
        ctx.count('precision_skipped_ill_conditioned')
        return
    ctx.case('precision_inverse', sig)
    prec = np.asarray(prec)
    eye = np.eye(cov.shape[0])
    if prec.shape != cov.shape or not close(prec @ cov, eye, 1e-6, 1e-6):
        ctx.fail('precision_inverse', sig, f'prec @ cov != I (maxdiff {maxdiff(prec @ cov, eye)})',
                 wit(prec=prec, cov=cov))


def gen_resid(rng, n=None, p=None):
    if n is None and p is None and rng.integers(6) == 0:
        # more channels than samples at a small physical magnitude: the sample covariance is singular, only an active
        # shrinkage makes the estimate invertible (and the returned precision its inverse)
        n = int(rng.integers(3, 7))
        p = n + int(rng.integers(0, 5))
        return rng.standard_normal((n, p)) * 10.0 ** float(gen.pick(rng, [-6, -5, -4])), 'wide_small'
    n = n or int(rng.integers(2, 25))
    p = p or int(rng.integers(1, 10))
    kind = gen.pick(rng, ['normal', 'normal', 'smallint_f', 'correlated'])
    if kind == 'correlated':
        a = rng.standard_normal((p, p))
        x = rng.standard_normal((n, p)) @ a + rng.uniform(-3, 3, size=p)
    else:
        x = gen.values(rng, (n, p), kind)
    # physical units: microvolts stored in volts, femtotesla in tesla, ... the estimators are scale-equivariant
    x = x * 10.0 ** float(gen.pick(rng, [-7, -4, 0, 0, 0, 3]))
    return x, kind


def degenerate(x, method, groups=None):
    """zero-variance channel (after demeaning) -> shrinkage_diag correlation undefined"""
    x = np.asarray(x, dtype=float)
    if groups is None:
        r = x - x.mean(axis=0, keepdims=True)
    else:
        r = x.copy()
        for g in set(groups):
            rows = [i for i, h in enumerate(groups) if h == g]
            r[rows] -= r[rows].mean(axis=0, keepdims=True)
    v = (r ** 2).sum(axis=0)
    if method == 'shrinkage_diag' and np.any(v < 1e-12):
        return True
    return bool(np.all(v < 1e-12))


def run_residuals(ctx, method):
    rng = ctx.rng
    x, kind = gen_resid(rng)
    n, p = x.shape
    if degenerate(x, method):
        ctx.count('rejected_degenerate')
        return
    dofk = gen.pick(rng, ['none', 'scalar'])
    dof = None if dofk == 'none' else int(rng.integers(max(1, n - 4), n + 1))
    sig = dict(method=method, kind='residuals', dof=dofk, one_channel=p == 1,
               shape='p>n' if p > n - 1 else ('p=n' if p == n - 1 else 'p<n'), values=kind)
    wit = lambda **k: dict(x=x, dof=dof, method=method, **k)  # noqa: E731
    x_in = x.copy()
    ok, got = ctx.guarded('residuals:' + method, sig, N.cov_from_residuals, x_in, dof=dof, method=method,
                          data=wit)
    if not ok:
        return
    ctx.case('residuals:' + method, sig, sample={'n': n, 'p': p, 'method': method, 'dof': dof})
    resid = x - x.mean(axis=0, keepdims=True)
    good = check_estimate(ctx, 'residuals:' + method, sig, got, resid, dof if dof is not None else n - 1,
                          method, wit)
    ctx.case('inputs_unmodified', sig)
    if not np.array_equal(x_in, x):
        ctx.fail('inputs_unmodified', sig, 'cov_from_residuals modified its input array', wit())
    # read-only run
    x_ro = x.copy()
    x_ro.flags.writeable = False
    ok2, got2 = ctx.guarded('readonly_inputs', sig, N.cov_from_residuals, x_ro, dof=dof, method=method,
                            data=wit)
    if ok2:
        ctx.case('readonly_inputs', sig)
        if not close(got2, got, 0, 0):
            ctx.fail('readonly_inputs', sig, 'result differs for read-only input', wit())
    if good:
        ok3, prec = ctx.guarded('precision_inverse', sig, N.prec_from_residuals, x.copy(), dof=dof,
                                method=method, expect_exc=(np.linalg.LinAlgError,), data=wit)
        if ok3:
            check_prec(ctx, sig, prec, got, wit)


def run_list(ctx, method):
    rng = ctx.rng
    k = int(rng.integers(2, 5))
    p = int(rng.integers(1, 7))
    xs = [gen_resid(rng, p=p)[0] for _ in range(k)]
    if any(degenerate(x, method) for x in xs):
        ctx.count('rejected_degenerate')
        return
    as3d = len({x.shape for x in xs}) == 1 and bool(rng.integers(2))
    dofk = gen.pick(rng, ['none', 'scalar', 'list'])
    if dofk == 'none':
        dof, dofs = None, [x.shape[0] - 1 for x in xs]
    elif dofk == 'scalar':
        d = int(min(x.shape[0] for x in xs) - 1)
        d = max(d - int(rng.integers(0, 2)), 1)
        # a scalar dof as a caller may hold it: a Python int or a numpy integer (n - np.linalg.matrix_rank(X))
        dof, dofs = (np.int64(d) if rng.integers(2) else d), [d] * k
    else:
        dofs = [int(rng.integers(max(1, x.shape[0] - 3), x.shape[0] + 1)) for x in xs]
        dof = list(dofs)
    arg = np.array(xs) if as3d else [x.copy() for x in xs]
    sig = dict(method=method, kind='stack3d' if as3d else 'list', dof=dofk, one_channel=p == 1)
    wit = lambda **kk: dict(xs=xs, dof=dof, method=method, **kk)  # noqa: E731
    ok, got = ctx.guarded('list_nesting', sig, N.cov_from_residuals, arg, dof=dof, method=method, data=wit)
    if not ok:
        return
    ctx.case('list_nesting', sig, sample={'k': k, 'p': p, 'dof': dof, 'as3d': as3d})
    if not isinstance(got, (list, np.ndarray)) or len(got) != k:
        ctx.fail('list_nesting', sig, f'expected {k} estimates, got {type(got).__name__} of length '
                 f'{len(got) if hasattr(got, "__len__") else "?"}', wit())
        return
    for i in range(k):
        gi = got[i]
        if isinstance(gi, list) or np.asarray(gi).ndim != 2:
            ctx.fail('list_nesting', sig, f'element {i} is not one covariance matrix but '
                     f'{type(gi).__name__} with shape {np.asarray(gi).shape}: list input with dof={dofk} '
                     f'must give a flat list', wit())
            return
        resid = xs[i] - xs[i].mean(axis=0, keepdims=True)
        if not check_estimate(ctx, 'list_nesting', sig, gi, resid, dofs[i], method, wit):
            return
    okp, prec = ctx.guarded('precision_inverse', sig, N.prec_from_residuals,
                            np.array(xs) if as3d else [x.copy() for x in xs], dof=dof, method=method,
                            expect_exc=(np.linalg.LinAlgError,), data=wit)
    if okp:
        if len(prec) != k:
            ctx.fail('precision_inverse', sig, 'wrong number of precisions', wit())
        else:
            for i in range(k):
                check_prec(ctx, sig, prec[i], got[i], wit)


def make_dataset(rng, balanced, n_cond=None, reps=None, p=None):
    # (a single condition measured several times is a legitimate balanced design: the residuals are the deviations
    # from the overall mean)
    n_cond = n_cond or int(rng.integers(1 if balanced else 2, 8))
    p = p or int(rng.integers(1, 8))
    if balanced:
        reps = reps or int(rng.integers(2, 7))
        idx = np.repeat(np.arange(n_cond), reps)
        rng.shuffle(idx)
        counts = [reps] * n_cond
    else:
        idx, counts = gen.design(rng, n_cond, 'unbalanced', rmax=5, rmin=1)
        if sum(counts) - n_cond < 1:
            counts[0] += 2
            idx = np.repeat(np.arange(n_cond), counts)
            rng.shuffle(idx)
    lk = gen.pick(rng, gen.LABEL_KINDS)
    labs = gen.labels(rng, n_cond, lk)
    obs = [labs[i] for i in idx]
    kind = gen.pick(rng, ['normal', 'smallint_f', 'int', 'uint8', 'bool'])   # storage: float64, integers, narrow, boolean
    meas = gen.values(rng, (len(idx), p), kind)
    cm = rng.standard_normal((n_cond, p)) * 3
    meas = meas + (cm[idx] if kind == 'normal' else np.round(cm[idx]).astype(meas.dtype))
    if kind == 'normal':
        meas = meas * 10.0 ** float(gen.pick(rng, [-7, -4, 0, 0, 0, 3]))
    return dict(meas=meas, obs=obs, idx=idx, counts=counts, n_cond=n_cond, p=p, lk=lk, kind=kind,
                container=gen.pick(rng, gen.CONTAINERS))


def ds_of(c, rows=None):
    meas, obs = c['meas'], c['obs']
    if rows is not None:
        meas = meas[rows]
        obs = [obs[i] for i in rows]
    return Dataset(np.array(meas), obs_descriptors={'cond': gen.wrap(obs, c['container'])},
                   channel_descriptors={'ch': list(range(c['p']))})


def ref_resid(c):
    meas = np.asarray(c['meas'], dtype=float)
    r = meas.copy()
    for g in set(c['obs']):
        rows = [i for i, h in enumerate(c['obs']) if h == g]
        r[rows] -= meas[rows].mean(axis=0, keepdims=True)
    return r


def run_dataset(ctx, method):
    rng = ctx.rng
    # --- balanced: measurement-based estimator, C != R preferred
    c = make_dataset(rng, True)
    if c['counts'][0] == c['n_cond'] and rng.integers(4) > 0:
        c = make_dataset(rng, True, n_cond=c['n_cond'], reps=c['counts'][0] + 1, p=c['p'])
    n = len(c['obs'])
    if not degenerate(c['meas'], method, c['obs']):
        dofk = gen.pick(rng, ['none', 'none', 'scalar'])
        dof = None if dofk == 'none' else int(n - c['n_cond'] - int(rng.integers(0, 2)))
        if dof is not None and dof < 1:
            dof, dofk = None, 'none'
        sig = dict(method=method, kind='measurements', dof=dofk, one_channel=c['p'] == 1,
                   c_eq_r=c['counts'][0] == c['n_cond'], labels=c['lk'], values=c['kind'])
        wit = lambda **k: dict(meas=c['meas'], obs=c['obs'], dof=dof, method=method, **k)  # noqa: E731
        ds = ds_of(c)
        before = ds.measurements.copy()
        ok, got = ctx.guarded('dataset_measurements', sig, N.cov_from_measurements, ds, 'cond', dof=dof,
                              method=method, data=wit)
        if ok:
            ctx.case('dataset_measurements', sig, sample={'conds': c['n_cond'], 'reps': c['counts'][0],
                                                          'channels': c['p'], 'method': method})
            resid = ref_resid(c)
            good = check_estimate(ctx, 'dataset_measurements', sig, got, resid,
                                  dof if dof is not None else n - c['n_cond'], method, wit)
            ctx.case('inputs_unmodified', sig)
            if not np.array_equal(ds.measurements, before):
                ctx.fail('inputs_unmodified', sig, 'cov_from_measurements modified dataset.measurements', wit())
            # the dataset object lives on and is edited through its public attributes (values rescaled in place, two
            # trials relabelled): the next estimate describes the dataset as it is now
            if good:
                how = gen.pick(rng, ['scale_values', 'swap_labels']) if np.asarray(c['meas']).dtype.kind != 'b' else 'swap_labels'
                c2 = dict(c)
                if how == 'scale_values':
                    ds.measurements *= 2
                    c2['meas'] = np.asarray(c['meas']) * 2
                else:
                    i0 = 0
                    j0 = next((j for j, h in enumerate(c['obs']) if h != c['obs'][0]), None)
                    obs2 = list(c['obs'])
                    if j0 is not None:
                        obs2[i0], obs2[j0] = obs2[j0], obs2[i0]
                    ds.obs_descriptors['cond'] = gen.wrap(obs2, c['container'])
                    c2['obs'] = obs2
                if not degenerate(c2['meas'], method, c2['obs']):
                    s2 = dict(sig, reused_object=how)
                    w2 = lambda **k: dict(meas=c2['meas'], obs=c2['obs'], dof=dof, method=method, after=how, **k)  # noqa: E731
                    okr, got_r = ctx.guarded('dataset_measurements', s2, N.cov_from_measurements, ds, 'cond', dof=dof,
                                             method=method, data=w2)
                    if okr:
                        ctx.case('dataset_measurements', s2)
                        check_estimate(ctx, 'dataset_measurements', s2, got_r, ref_resid(c2),
                                       dof if dof is not None else n - c['n_cond'], method, w2)
            ok2, got_u = ctx.guarded('balanced_agreement', sig, N.cov_from_unbalanced, ds_of(c), 'cond',
                                     dof=dof, method=method, data=wit)
            if ok2:
                ctx.case('balanced_agreement', sig)
                sc = max(1e-300, float(np.abs(np.asarray(got_u)).max()))
                if not close(got, got_u, 1e-8, 1e-10 * sc):
                    ctx.fail('balanced_agreement', sig, f'cov_from_measurements != cov_from_unbalanced on a '
                             f'balanced design ({c["n_cond"]} conditions x {c["counts"][0]} repetitions): '
                             f'ratio {np.asarray(got)[0, 0] / np.asarray(got_u)[0, 0]}', wit(got=got, got_u=got_u))
            if good:
                ok3, prec = ctx.guarded('precision_inverse', sig, N.prec_from_measurements, ds_of(c), 'cond',
                                        dof=dof, method=method, expect_exc=(np.linalg.LinAlgError,), data=wit)
                if ok3:
                    check_prec(ctx, sig, prec, got, wit)
            # read-only dataset
            dro = ds_of(c)
            dro.measurements.flags.writeable = False
            ok4, got4 = ctx.guarded('readonly_inputs', sig, N.cov_from_measurements, dro, 'cond', dof=dof,
                                    method=method, data=wit)
            if ok4:
                ctx.case('readonly_inputs', sig)
                if not close(got4, got, 0, 0):
                    ctx.fail('readonly_inputs', sig, 'differs for read-only dataset', wit())
    else:
        ctx.count('rejected_degenerate')
    # --- unbalanced estimator
    u = make_dataset(rng, False)
    n = len(u['obs'])
    if degenerate(u['meas'], method, u['obs']):
        ctx.count('rejected_degenerate')
        return
    dofk = gen.pick(rng, ['none', 'scalar'])
    dof = None if dofk == 'none' else max(1, n - u['n_cond'] - int(rng.integers(0, 2)))
    sig = dict(method=method, kind='unbalanced', dof=dofk, one_channel=u['p'] == 1, labels=u['lk'],
               values=u['kind'])
    wit = lambda **k: dict(meas=u['meas'], obs=u['obs'], dof=dof, method=method, **k)  # noqa: E731
    ds = ds_of(u)
    before = ds.measurements.copy()
    ok, got = ctx.guarded('dataset_unbalanced', sig, N.cov_from_unbalanced, ds, 'cond', dof=dof,
                          method=method, data=wit)
    if not ok:
        return
    ctx.case('dataset_unbalanced', sig)
    good = check_estimate(ctx, 'dataset_unbalanced', sig, got, ref_resid(u),
                          dof if dof is not None else n - u['n_cond'], method, wit)
    ctx.case('inputs_unmodified', sig)
    if not np.array_equal(ds.measurements, before):
        ctx.fail('inputs_unmodified', sig, 'cov_from_unbalanced modified dataset.measurements', wit())
    # row order invariance
    rows = [int(i) for i in rng.permutation(n)]
    ok5, got5 = ctx.guarded('dataset_unbalanced', sig, N.cov_from_unbalanced, ds_of(u, rows), 'cond',
                            dof=dof, method=method, data=wit)
    if ok5 and good:
        sc = max(1e-300, float(np.abs(np.asarray(got)).max()))
        if not close(got5, got, 1e-8, 1e-10 * sc):
            ctx.fail('dataset_unbalanced', dict(sig, aspect='row_order'), 'row order changes the estimate', wit())
    if good:
        ok3, prec = ctx.guarded('precision_inverse', sig, N.prec_from_unbalanced, ds_of(u), 'cond', dof=dof,
                                method=method, expect_exc=(np.linalg.LinAlgError,), data=wit)
        if ok3:
            check_prec(ctx, sig, prec, got, wit)


def run_dataset_list(ctx, method):
    rng = ctx.rng
    k = int(rng.integers(2, 4))
    p = int(rng.integers(1, 6))
    balanced = bool(rng.integers(2))
    cs = [make_dataset(rng, balanced, p=p) for _ in range(k)]
    if any(degenerate(c['meas'], method, c['obs']) for c in cs):
        ctx.count('rejected_degenerate')
        return
    dofk = gen.pick(rng, ['none', 'scalar', 'list'])
    nat = [len(c['obs']) - c['n_cond'] for c in cs]
    if dofk == 'none':
        dof, dofs = None, nat
    elif dofk == 'scalar':
        d = max(1, min(nat) - int(rng.integers(0, 2)))
        dof, dofs = (np.int64(d) if rng.integers(2) else d), [d] * k
    else:
        dofs = [max(1, v - int(rng.integers(0, 2))) for v in nat]
        dof = np.array(dofs) if rng.integers(2) else list(dofs)     # one dof per element, as a list or an array
    fn = N.cov_from_measurements if balanced else N.cov_from_unbalanced
    sig = dict(method=method, kind='dataset_list_' + ('balanced' if balanced else 'unbalanced'), dof=dofk,
               one_channel=p == 1)
    wit = lambda **kk: dict(datasets=[dict(meas=c['meas'], obs=c['obs']) for c in cs], dof=dof,  # noqa: E731
                            method=method, **kk)
    ok, got = ctx.guarded('list_nesting', sig, fn, [ds_of(c) for c in cs], 'cond', dof=dof, method=method,
                          data=wit)
    if not ok:
        return
    ctx.case('list_nesting', sig)
    if not isinstance(got, list) or len(got) != k:
        ctx.fail('list_nesting', sig, f'expected list of {k}', wit())
        return
    for i in range(k):
        if isinstance(got[i], list) or np.asarray(got[i]).ndim != 2:
            ctx.fail('list_nesting', sig, f'element {i} is not a single matrix', wit())
            return
        if not check_estimate(ctx, 'list_nesting', sig, got[i], ref_resid(cs[i]), dofs[i], method, wit):
            return


def run(ctx):
    n = ctx.n(120, 4000)
    for it in range(n):
        if ctx.out_of_time():
            ctx.notes.append(f'time budget reached after {it} rounds')
            break
        method = METHODS[it % 4]
        run_residuals(ctx, method)
        run_list(ctx, method)
        run_dataset(ctx, method)
        run_dataset_list(ctx, method)
