"""C10  RDM container operations never change which value belongs to which pair.

Monitor: history checker -- random (and, in thorough, exhaustive short) sequences of structural operations on a
pool of live RDMs objects; every RDM, condition and value carries a unique id; an icontract class invariant on
RDMs runs after every public call.
Oracle: id-keyed reference store value[(rdm uid, {cond uid a, cond uid b})] + descriptor tables per uid + a light
reference of which uids each operation must return; after EVERY step every live object is compared with the
store, and objects not targeted by an in-place operation must be fingerprint-identical.
"""
import copy
import itertools

import numpy as np

import rsatoolbox
from rsatoolbox.rdm import RDMs, concat, rdms_from_dict
from rsatoolbox.rdm.combine import from_partials
from rsatoolbox.rdm.rdms import inverse_permute_rdms, permute_rdms
from rsatoolbox.util.rdm_utils import _get_n_from_reduced_vectors, batch_to_matrices, batch_to_vectors
from vlib import gen, ref

LEVEL = 'exploration'
LEVEL_TEXT = ('Seeded exploration by operation histories on the real RDMs class: random sequences of the listed '
              'structural operations (exhaustive short sequences over a tiny object in the thorough tier) are '
              'applied to a pool of live objects whose RDMs, conditions and values carry unique ids; after every '
              'single step every live object is checked entry by entry against the id-keyed store, descriptor '
              'tables and the expected uid lists, and objects that were not the target of an in-place operation '
              'must be unchanged. Held on the K histories observed.')
LEVEL_NOTE = ('A sequence is aborted at its first failing step and the failure attributed to that operation (a '
              'mislabelled object left in the pool would make every later step fail). Operations are generated '
              'only when their result keeps >= 2 conditions and >= 1 RDM.')
DESIGN_REF = 'DESIGN.md section 4 / C10'
TECHNIQUE = 'history checker with unique ids + id-keyed reference store + icontract class invariant'
RULE = ('random operation sequences (length <= 12 quick / 25 thorough) over pools of 2-3 source objects sharing a '
        'condition universe {descriptor container list/ndarray x label kinds x duplicate descriptor values x NaN '
        'entries}; exhaustive: all sequences of length <= 3 of the core operations on a 3-condition 2-RDM object; '
        'each applied operation is a case; distinct = (operation, argument class)')
ASSUMPTIONS = ['objects keep >= 2 conditions and >= 1 RDM', 'condition uids < 100, rdm uids < 1000 (id coding exact)']
OPS = ['getitem', 'iter', 'subset', 'subsample', 'subset_pattern', 'subsample_pattern', 'reorder', 'sort_by',
       'derive_sort', 'append', 'concat', 'copy', 'vectors_matrices', 'from_partials', 'permute', 'dict_roundtrip', 'to_df']
REQUIRED = ['check:' + o for o in OPS] + ['check:n_cond_from_length', 'sequences_completed', 'invariant_evaluations',
                                         'steps_checked']
REACH = ['RDMs.__getitem__', 'RDMs.subset', 'RDMs.subsample', 'RDMs.subset_pattern', 'RDMs.subsample_pattern',
         'RDMs.reorder', 'RDMs.sort_by', 'RDMs.append', 'RDMs.copy', 'RDMs.get_matrices', 'RDMs.to_dict',
         'RDMs.to_df', 'concat', 'from_partials', 'permute_rdms', 'rdms_from_dict', 'rdms_to_df',
         'batch_to_vectors', 'batch_to_matrices', '_merged_rdm_descriptors']
FAIL_KEYS = ['op', 'what', 'arg']
TIME_BUDGET = {'quick': 80, 'thorough': 800}

_inv = {'n': 0, 'err': None}


class InvariantBroken(Exception):
    pass


def rdms_invariant(self):
    """class invariant: shapes, descriptor lengths, symmetric zero-diagonal matrices"""
    _inv['n'] += 1
    d = self.dissimilarities
    if d.ndim != 2 or d.shape[0] != self.n_rdm:
        _inv['err'] = f'dissimilarities shape {d.shape} vs n_rdm {self.n_rdm}'
        return False
    if d.shape[1] != self.n_cond * (self.n_cond - 1) // 2:
        _inv['err'] = f'{d.shape[1]} entries for n_cond {self.n_cond}'
        return False
    for k, v in self.rdm_descriptors.items():
        if len(v) != self.n_rdm:
            _inv['err'] = f'rdm descriptor {k!r} has length {len(v)} for {self.n_rdm} RDMs'
            return False
    for k, v in self.pattern_descriptors.items():
        if len(v) != self.n_cond:
            _inv['err'] = f'pattern descriptor {k!r} has length {len(v)} for {self.n_cond} conditions'
            return False
    return True


def install_invariant():
    try:
        import icontract
    except Exception:
        return False
    if getattr(RDMs, '_verif_inv', False):
        return True
    icontract.invariant(rdms_invariant, error=lambda self: InvariantBroken(_inv['err']))(RDMs)
    RDMs._verif_inv = True
    return True


# ---------------------------------------------------------------------------
class World:
    def __init__(self, rng, n_cond=None, n_src=None, tiny=False):
        self.rng = rng
        self.n_cond = n_cond or int(rng.integers(4, 8))
        self.cont = gen.pick(rng, gen.CONTAINERS)
        lk = gen.pick(rng, gen.LABEL_KINDS)
        self.puid = [int(v) for v in rng.permutation(self.n_cond) + 10]
        self.name = dict(zip(self.puid, gen.labels(rng, self.n_cond, lk)))
        self.cat = {u: ['x', 'y', 'z'][i % 3] for i, u in enumerate(self.puid)}     # duplicate values
        self.store = {}
        self.rdesc = {}
        self.next_ruid = 1
        self.nan_source = (not tiny) and bool(rng.integers(3) == 0)
        # exact zeros between different conditions (identical patterns, a categorical model RDM) are values like any other
        self.zero_source = bool(rng.integers(3) == 0)

    def value(self, r, a, b):
        return self.store[(r, frozenset((a, b)))]

    def new_source(self, n_rdm, conds=None):
        conds = list(self.puid) if conds is None else conds
        ruids = list(range(self.next_ruid, self.next_ruid + n_rdm))
        self.next_ruid += n_rdm
        for r in ruids:
            # session labels of different lengths: a fixed-width string array must not clip a longer label appended later
            self.rdesc[r] = {'sess': ['s1', 's2', 's10', 'session_11'][r % 4], 'w': float(r) / 2}
            for a, b in itertools.combinations(self.puid, 2):
                v = float(r * 10000 + min(a, b) * 100 + max(a, b))
                if self.nan_source and self.rng.integers(12) == 0:
                    v = float('nan')
                elif self.zero_source and self.rng.integers(6) == 0:
                    v = 0.0
                self.store[(r, frozenset((a, b)))] = v
        return self.build(ruids, conds)

    def build(self, ruids, conds):
        n = len(conds)
        iu = np.triu_indices(n, 1)
        vec = np.array([[self.value(r, conds[i], conds[j]) for i, j in zip(iu[0], iu[1])] for r in ruids])
        if not np.isnan(vec).any() and self.rng.integers(4) == 0:
            vec = vec.astype(np.int64)          # the id-coded values are whole numbers: stored in an integer array
        obj = RDMs(vec, dissimilarity_measure='euclidean', descriptors={'exp': 'e1'},
                   rdm_descriptors={'ruid': gen.wrap(ruids, self.cont),
                                    'sess': gen.wrap([self.rdesc[r]['sess'] for r in ruids], self.cont),
                                    'w': [self.rdesc[r]['w'] for r in ruids]},
                   pattern_descriptors={'puid': gen.wrap(conds, self.cont),
                                        'name': gen.wrap([self.name[c] for c in conds], self.cont),
                                        'cat': gen.wrap([self.cat[c] for c in conds], self.cont)})
        sh = Shadow([(r, None) for r in ruids], list(conds))
        return obj, sh


class Shadow:
    """light reference of an object: rows (rdm uid, allowed pairs or None = all), conditions (uids in order)"""

    def __init__(self, rows, conds):
        self.rows = rows
        self.conds = conds

    def copy(self):
        return Shadow([(r, None if a is None else set(a)) for r, a in self.rows], list(self.conds))


def fingerprint(obj):
    def dsc(d):
        # includes the library-managed 'index' descriptors: subset_pattern('index', ...) reads them, so an in-place
        # operation on one object must not renumber another object's index either
        return tuple((k, tuple(str(x) for x in v)) for k, v in sorted(d.items()))
    return (obj.dissimilarities.tobytes(), obj.dissimilarities.shape, dsc(obj.rdm_descriptors),
            dsc(obj.pattern_descriptors), obj.n_rdm, obj.n_cond)


def check_object(w, obj, sh):
    """returns None or an error string: obj must show exactly sh (entries from the store, descriptors from tables)"""
    try:
        ru = [int(v) for v in obj.rdm_descriptors['ruid']]
        pu = [int(v) for v in obj.pattern_descriptors['puid']]
    except Exception as exc:
        return f'uid descriptors unreadable: {exc!r}'
    if ru != [r for r, _ in sh.rows]:
        return f'RDM uids {ru} != expected {[r for r, _ in sh.rows]}'
    if pu != sh.conds:
        return f'condition uids {pu} != expected {sh.conds}'
    if obj.n_rdm != len(ru) or obj.n_cond != len(pu):
        return f'n_rdm/n_cond ({obj.n_rdm},{obj.n_cond}) disagree with descriptors'
    for k, r in enumerate(ru):
        if str(obj.rdm_descriptors['sess'][k]) != w.rdesc[r]['sess'] or float(obj.rdm_descriptors['w'][k]) != w.rdesc[r]['w']:
            return f'descriptors of RDM uid {r} changed'
    for i, c in enumerate(pu):
        if ref._key(obj.pattern_descriptors['name'][i]) != w.name[c] or str(obj.pattern_descriptors['cat'][i]) != w.cat[c]:
            return f'descriptors of condition uid {c} changed: name {obj.pattern_descriptors["name"][i]!r} cat ' \
                   f'{obj.pattern_descriptors["cat"][i]!r}, expected {w.name[c]!r} {w.cat[c]!r}'
    n = len(pu)
    vec = obj.dissimilarities
    if vec.shape != (len(ru), n * (n - 1) // 2):
        return f'vector shape {vec.shape}'
    mats = obj.get_matrices()
    iu = np.triu_indices(n, 1)
    for k, (r, allowed) in enumerate(sh.rows):
        m = mats[k]
        if not np.array_equal(m, m.T, equal_nan=True) or np.any(np.diag(m) != 0):
            return f'square form of RDM {r} not symmetric with zero diagonal'
        if not np.array_equal(m[iu], vec[k], equal_nan=True):
            return f'vector and square form of RDM {r} disagree'
        for col, (i, j) in enumerate(zip(iu[0], iu[1])):
            a, b = pu[i], pu[j]
            got = vec[k, col]
            if a == b or (allowed is not None and frozenset((a, b)) not in allowed):
                if not np.isnan(got):
                    return f'entry (rdm {r}, conds {a},{b}) must be NaN (copy of one condition / absent from the ' \
                           f'partial RDM) but is {got!r}'
            else:
                want = w.value(r, a, b)
                if not (got == want or (np.isnan(got) and np.isnan(want))):
                    return f'entry (rdm {r}, conds {a},{b}) is {got!r}, source value {want!r}'
    return None


# ---------------------------------------------------------------------------
class Run:
    def __init__(self, ctx, w):
        self.ctx = ctx
        self.w = w
        self.pool = []   # list of [obj, shadow]

    def add(self, obj, sh):
        self.pool.append([obj, sh])

    def prune(self):
        # only between steps, so that pool indices are stable within one step
        while len(self.pool) > 7:
            self.pool.pop(int(self.w.rng.integers(len(self.pool))))

    def verify_all(self, op, sig, wit, touched=(), before=None):
        """after a step: every live object matches its shadow; untouched objects are fingerprint-identical"""
        self.ctx.count('steps_checked')
        for k, (obj, sh) in enumerate(self.pool):
            err = check_object(self.w, obj, sh)
            if err:
                role = 'result/target' if k in touched else 'bystander (not an operand of this in-place operation)'
                self.ctx.fail(op, dict(sig, what='association' if k in touched else 'other_object_changed'),
                              f'after {op}: live object #{k} [{role}]: {err}', wit(obj_index=k))
                return False
            if before is not None and k not in touched and k < len(before) and before[k] is not None:
                if fingerprint(obj) != before[k]:
                    self.ctx.fail(op, dict(sig, what='other_object_changed'), f'after {op}: live object #{k} was not '
                                  f'the target of the operation but its content changed', wit(obj_index=k))
                    return False
        return True


def pick_obj(run, pred=lambda o, s: True):
    c = [k for k, (o, s) in enumerate(run.pool) if pred(o, s)]
    return None if not c else c[int(run.w.rng.integers(len(c)))]


def arg_form(rng, values):
    f = gen.pick(rng, ['list', 'array'])
    return (list(values) if f == 'list' else np.array(values)), f


def step(run, op):
    """apply one operation; returns False if a violation was recorded (sequence must stop)"""
    ctx, w, rng = run.ctx, run.w, run.w.rng
    run.prune()
    before = [fingerprint(o) for o, _ in run.pool]
    hist = lambda **k: dict(op=op, pool=[dict(ruids=[r for r, _ in s.rows], conds=s.conds) for _, s in run.pool], **k)  # noqa
    sig = dict(op=op)
    touched = ()
    try:
        if op == 'getitem':
            k = pick_obj(run)
            obj, sh = run.pool[k]
            form = gen.pick(rng, ['int', 'list', 'slice', 'array'])
            if form == 'int':
                idx = int(rng.integers(obj.n_rdm))
                sel = [idx]
            elif form == 'slice':
                a = int(rng.integers(obj.n_rdm))
                idx = slice(a, obj.n_rdm)
                sel = list(range(a, obj.n_rdm))
            else:
                sel = [int(i) for i in rng.integers(0, obj.n_rdm, size=int(rng.integers(1, obj.n_rdm + 1)))]
                idx = sel if form == 'list' else np.array(sel)
            sig['arg'] = form
            if form == 'slice':
                new = obj[list(range(obj.n_rdm))[idx]]
            else:
                new = obj[idx]
            run.add(new, Shadow([sh.rows[i] for i in sel], list(sh.conds)))
            touched = (len(run.pool) - 1,)
        elif op == 'iter':
            k = pick_obj(run)
            obj, sh = run.pool[k]
            parts = list(obj)
            if len(parts) != obj.n_rdm:
                ctx.fail(op, dict(sig, what='count'), f'iteration yields {len(parts)} objects for {obj.n_rdm} RDMs', hist())
                return False
            i = int(rng.integers(len(parts)))
            run.add(parts[i], Shadow([sh.rows[i]], list(sh.conds)))
            touched = (len(run.pool) - 1,)
        elif op in ('subset', 'subsample'):
            k = pick_obj(run)
            obj, sh = run.pool[k]
            by = gen.pick(rng, ['ruid', 'sess', 'index'])
            col = [ref._key(v) for v in obj.rdm_descriptors[by]]
            uniq = list(dict.fromkeys(col))
            if op == 'subset':
                vals = [uniq[int(i)] for i in rng.choice(len(uniq), size=int(rng.integers(1, len(uniq) + 1)), replace=False)]
                rows = [i for i, v in enumerate(col) if v in vals]
            else:
                vals = [uniq[int(i)] for i in rng.integers(0, len(uniq), size=int(rng.integers(1, len(uniq) + 2)))]
                rows = [i for v in vals for i, c in enumerate(col) if c == v]
            scalar = len(vals) == 1 and bool(rng.integers(2))
            arg, form = (vals[0], 'scalar') if scalar else arg_form(rng, vals)
            sig['arg'] = f'{by}/{form}'
            new = getattr(obj, op)(by, arg)
            run.add(new, Shadow([sh.rows[i] for i in rows], list(sh.conds)))
            touched = (len(run.pool) - 1,)
        elif op in ('subset_pattern', 'subsample_pattern'):
            k = pick_obj(run, lambda o, s: o.n_cond >= 3)
            if k is None:
                return True
            obj, sh = run.pool[k]
            by = gen.pick(rng, ['puid', 'name', 'cat', 'index'])
            col = [ref._key(v) for v in obj.pattern_descriptors[by]]
            uniq = list(dict.fromkeys(col))
            if op == 'subset_pattern':
                vals = [uniq[int(i)] for i in rng.choice(len(uniq), size=int(rng.integers(1, len(uniq) + 1)), replace=False)]
                pos = [i for i, v in enumerate(col) if v in vals]
            else:
                vals = [uniq[int(i)] for i in rng.integers(0, len(uniq), size=int(rng.integers(1, len(uniq) + 2)))]
                pos = sorted(i for v in vals for i, c in enumerate(col) if c == v)
            if len(pos) < 2:
                return True
            arg, form = arg_form(rng, vals)
            sig['arg'] = f'{by}/{form}'
            new = getattr(obj, op)(by, arg)
            run.add(new, Shadow([(r, a) for r, a in sh.rows], [sh.conds[i] for i in pos]))
            touched = (len(run.pool) - 1,)
        elif op == 'reorder':
            k = pick_obj(run)
            obj, sh = run.pool[k]
            order = [int(i) for i in rng.permutation(obj.n_cond)]
            arg, form = arg_form(rng, order)
            sig['arg'] = form
            obj.reorder(arg)
            sh.conds = [sh.conds[i] for i in order]
            touched = (k,)
        elif op == 'sort_by':
            k = pick_obj(run, lambda o, s: len(set(s.conds)) == len(s.conds))
            if k is None:
                return True
            obj, sh = run.pool[k]
            mode = gen.pick(rng, ['alpha_name', 'alpha_cat', 'alpha_puid', 'list'])
            reindex = bool(rng.integers(2))
            sig['arg'] = f'{mode}/reindex={reindex}'
            if mode == 'list':
                names = [w.name[c] for c in sh.conds]
                order = [int(i) for i in rng.permutation(len(names))]
                if rng.integers(3) == 0:
                    order = list(range(len(names)))   # already in the requested order (a no-op for the values)
                target = [names[i] for i in order]
                obj.sort_by(reindex=reindex, name=gen.pick(rng, [list(target), np.array(target)]))
                sh.conds = [sh.conds[i] for i in order]
            else:
                dname = mode.split('_')[1]
                keys = [ref._key(v) for v in obj.pattern_descriptors[dname]]
                order = [int(i) for i in np.argsort(np.array(keys), kind='stable')]
                obj.sort_by(reindex=reindex, **{dname: 'alpha'})
                # any order that sorts the descriptor is acceptable; ties must keep their original relative order
                sh.conds = [sh.conds[i] for i in order]
            if reindex and [int(v) for v in obj.pattern_descriptors['index']] != list(range(obj.n_cond)):
                ctx.fail(op, dict(sig, what='reindex'), 'index not reset', hist())
                return False
            touched = (k,)
        elif op == 'derive_sort':
            # an in-place sort on a freshly derived (not copied) object that is already in the requested order: the
            # values do not move, the derived object is re-indexed, and its source must stay exactly as it was --
            # in particular a source carrying a non-default 'index' (the result of subset_pattern)
            k = pick_obj(run, lambda o, s: len(set(s.conds)) == len(s.conds) and
                         [int(v) for v in o.pattern_descriptors['index']] != list(range(o.n_cond)))
            if k is None:
                k = pick_obj(run, lambda o, s: len(set(s.conds)) == len(s.conds))
            if k is None:
                return True
            obj, sh = run.pool[k]
            how = gen.pick(rng, ['getitem', 'iter', 'subset'])
            i = int(rng.integers(obj.n_rdm))
            if how == 'getitem':
                child, rows = obj[i], [sh.rows[i]]
            elif how == 'iter':
                child, rows = list(obj)[i], [sh.rows[i]]
            else:
                val = obj.rdm_descriptors['ruid'][i]
                child = obj.subset('ruid', val)
                rows = [r for r, v in zip(sh.rows, obj.rdm_descriptors['ruid']) if ref._key(v) == ref._key(val)]
            sig['arg'] = how
            names = [w.name[c] for c in sh.conds]
            child.sort_by(reindex=True, name=list(names))
            run.add(child, Shadow(list(rows), list(sh.conds)))
            if [int(v) for v in child.pattern_descriptors['index']] != list(range(child.n_cond)):
                ctx.fail(op, dict(sig, what='reindex'), 'index not reset', hist())
                return False
            touched = (len(run.pool) - 1,)
        elif op == 'append':
            k = pick_obj(run)
            obj, sh = run.pool[k]
            k2 = pick_obj(run, lambda o, s: s.conds == sh.conds and o is not obj)
            if k2 is None:
                return True
            other, sh2 = run.pool[k2]
            if set(obj.rdm_descriptors) - set(other.rdm_descriptors):
                ctx.count('rejected_append_descriptor_mismatch')   # documented precondition (assert) of append
                return True
            if rng.integers(4) == 0:
                # the precondition itself: an object lacking one of the receiver's rdm descriptors is refused, and the
                # receiver keeps every RDM and descriptor value (nothing is silently dropped)
                lacking = other.copy()
                drop = gen.pick(rng, [k for k in obj.rdm_descriptors if k != 'index'])   # one the RECEIVER has
                del lacking.rdm_descriptors[drop]
                fb = fingerprint(obj)
                try:
                    obj.append(lacking)
                    refused = False
                except Exception:  # noqa
                    refused = True
                ctx.case('append', dict(sig, arg='lacking_descriptor'))
                if not refused or fingerprint(obj) != fb:
                    ctx.fail(op, dict(sig, what='inconsistent_append_accepted', arg='lacking_descriptor'), f'append of an '
                             f'object without the rdm descriptor {drop!r} was ' + ('accepted' if not refused else 'refused '
                             'but altered the receiver') + f': receiver descriptors now {sorted(obj.rdm_descriptors)}', hist())
                    return False
            obj.append(other)
            sh.rows = sh.rows + [(r, a) for r, a in sh2.rows]
            touched = (k,)
        elif op == 'concat':
            k = pick_obj(run, lambda o, s: len(set(s.conds)) == len(s.conds))
            if k is None:
                return True
            obj, sh = run.pool[k]
            mode = gen.pick(rng, ['varargs', 'list', 'single', 'permuted_second'])
            sig['arg'] = f'{mode}/{w.cont}'
            if mode == 'single':
                new = concat(obj) if rng.integers(2) else concat([obj])
                run.add(new, Shadow(list(sh.rows), list(sh.conds)))
                touched = (len(run.pool) - 1,)
            else:
                if mode == 'permuted_second':
                    # a second operand over the same conditions in another order
                    perm = [int(i) for i in rng.permutation(len(sh.conds))]
                    conds2 = [sh.conds[i] for i in perm]
                    o2, s2 = w.new_source(int(rng.integers(1, 3)))
                    o2 = o2.subset_pattern('puid', conds2)
                    s2.conds = [c for c in s2.conds if c in conds2]
                    order = [s2.conds.index(c) for c in conds2]
                    o2.reorder(order)
                    s2.conds = conds2
                    run.add(o2, s2)
                    k2 = len(run.pool) - 1
                    before = [fingerprint(o) for o, _ in run.pool]
                else:
                    k2 = pick_obj(run, lambda o, s: s.conds == sh.conds and o is not obj)
                    if k2 is None:
                        return True
                other, sh2 = run.pool[k2]
                new = concat(obj, other) if mode != 'list' else concat([obj, other])
                run.add(new, Shadow(list(sh.rows) + list(sh2.rows), list(sh.conds)))
                touched = (len(run.pool) - 1,)
                # object-level descriptors holding ARRAYS that differ in some (not all) elements: after the concatenation
                # every RDM still sees the value of the object it came from
                a2, b2 = obj.copy(), other.copy()
                roi_a, roi_b = np.array([10, 20, 30]), np.array([10, 25, 30])
                a2.descriptors['roi'], b2.descriptors['roi'] = roi_a.copy(), roi_b.copy()
                try:
                    c2 = concat(a2, b2)
                except Exception as exc:
                    ctx.fail(op, dict(sig, what='raised', arg='array_descriptor'), f'concat of objects with array-valued '
                             f'descriptors raised {exc!r}', hist())
                    return False
                ctx.case(op, dict(sig, arg='array_descriptor'))
                for kk in range(c2.n_rdm):
                    want_roi = roi_a if kk < a2.n_rdm else roi_b
                    seen = c2.rdm_descriptors['roi'][kk] if 'roi' in c2.rdm_descriptors else c2.descriptors.get('roi')
                    if seen is None or not np.array_equal(np.asarray(seen), want_roi):
                        ctx.fail(op, dict(sig, what='descriptors', arg='array_descriptor'), f'after concat RDM {kk} carries '
                                 f'roi {seen!r}, the object it came from had {want_roi.tolist()}', hist())
                        return False
        elif op == 'copy':
            k = pick_obj(run)
            obj, sh = run.pool[k]
            new = obj.copy()
            run.add(new, sh.copy())
            touched = (len(run.pool) - 1,)
        elif op == 'vectors_matrices':
            k = pick_obj(run)
            obj, sh = run.pool[k]
            v = obj.get_vectors()
            m = obj.get_matrices()
            v2, nr, nc = batch_to_vectors(m)
            m2, nr2, nc2 = batch_to_matrices(v)
            if not (np.array_equal(v2, v, equal_nan=True) and np.array_equal(m2, m, equal_nan=True)
                    and nr == nr2 == obj.n_rdm and nc == nc2 == obj.n_cond):
                ctx.fail(op, dict(sig, what='roundtrip'), 'vector <-> matrix conversion does not round-trip', hist())
                return False
            new = RDMs(m.copy(), rdm_descriptors=copy.deepcopy(obj.rdm_descriptors),
                       pattern_descriptors=copy.deepcopy(obj.pattern_descriptors), dissimilarity_measure='euclidean')
            run.add(new, sh.copy())
            touched = (len(run.pool) - 1,)
        elif op == 'from_partials':
            k = pick_obj(run, lambda o, s: len(set(s.conds)) == len(s.conds) and len(s.conds) >= 3)
            if k is None:
                return True
            obj, sh = run.pool[k]
            parts, shadows = [], []
            for _ in range(int(rng.integers(1, 4))):
                m = int(rng.integers(2, len(sh.conds) + 1))
                sel = [sh.conds[int(i)] for i in rng.permutation(len(sh.conds))[:m]]      # arbitrary order
                p = obj.subset_pattern('puid', sel)
                pc = [c for c in sh.conds if c in sel]
                order = [pc.index(c) for c in sel]
                p.reorder(order)
                rsel = int(rng.integers(obj.n_rdm))
                p = p[rsel]
                parts.append(p)
                shadows.append((sh.rows[rsel], sel))
            by = gen.pick(rng, ['puid', 'name'])
            sig['arg'] = by
            new = from_partials(parts, descriptor=by)
            allc = list(dict.fromkeys(c for _, sel in shadows for c in sel))
            rows = []
            for (r, a), sel in shadows:
                pairs = set(frozenset(p) for p in itertools.combinations(sel, 2))
                rows.append((r, pairs if a is None else pairs & a))
            # from_partials keeps only the expanding descriptor: read the result through it
            got_c = [ref._key(v) for v in new.pattern_descriptors[by]]
            want_c = [c if by == 'puid' else w.name[c] for c in allc]
            if got_c != want_c:
                ctx.fail(op, dict(sig, what='conditions'), f'conditions {got_c} != union in first-appearance order '
                         f'{want_c}', hist())
                return False
            if [int(v) for v in new.rdm_descriptors['ruid']] != [r for r, _ in rows]:
                ctx.fail(op, dict(sig, what='rdm_descriptors'), f'rdm descriptors {new.rdm_descriptors.get("ruid")} != '
                         f'{[r for r, _ in rows]}', hist())
                return False
            full = RDMs(new.dissimilarities.copy(), dissimilarity_measure='euclidean',
                        rdm_descriptors={'ruid': [r for r, _ in rows], 'sess': [w.rdesc[r]['sess'] for r, _ in rows],
                                         'w': [w.rdesc[r]['w'] for r, _ in rows]},
                        pattern_descriptors={'puid': allc, 'name': [w.name[c] for c in allc],
                                             'cat': [w.cat[c] for c in allc]})
            run.add(full, Shadow(rows, allc))
            touched = (len(run.pool) - 1,)
        elif op == 'permute':
            k = pick_obj(run)
            obj, sh = run.pool[k]
            p = rng.permutation(obj.n_cond).astype(int)
            new = permute_rdms(obj, p)
            run.add(new, Shadow([(r, a) for r, a in sh.rows], [sh.conds[int(i)] for i in p]))
            touched = (len(run.pool) - 1,)
            if not run.verify_all(op, sig, hist, touched, before):
                return False
            back = inverse_permute_rdms(new)
            run.add(back, Shadow([(r, a) for r, a in sh.rows], list(sh.conds)))
            before = None
            touched = (len(run.pool) - 1,)
        elif op == 'dict_roundtrip':
            k = pick_obj(run)
            obj, sh = run.pool[k]
            if rng.integers(2):
                # straight from the dict form / from the exposed vectors (no defensive copy by the caller): the new
                # object may share its buffer with the source, in-place operations must still not interfere
                new = rdms_from_dict(obj.to_dict()) if rng.integers(2) else \
                    RDMs(obj.get_vectors(), dissimilarity_measure=obj.dissimilarity_measure,
                         descriptors=copy.deepcopy(obj.descriptors), rdm_descriptors=copy.deepcopy(obj.rdm_descriptors),
                         pattern_descriptors=copy.deepcopy(obj.pattern_descriptors))
                sig['arg'] = 'shared'
            else:
                new = rdms_from_dict(copy.deepcopy(obj.to_dict()))
                sig['arg'] = 'deepcopy'
            run.add(new, sh.copy())
            touched = (len(run.pool) - 1,)
        elif op == 'to_df':
            k = pick_obj(run)
            obj, sh = run.pool[k]
            df = obj.to_df()
            n = len(sh.conds)
            if len(df) != len(sh.rows) * n * (n - 1) // 2:
                ctx.fail(op, dict(sig, what='rows'), f'{len(df)} rows', hist())
                return False
            n_pairs = n * (n - 1) // 2
            for t, (_, row) in enumerate(df.iterrows()):
                r, a, b = int(row['ruid']), int(row['puid_1']), int(row['puid_2'])
                if r != sh.rows[t // n_pairs][0]:
                    ctx.fail(op, dict(sig, what='row_order'), f'row {t} belongs to rdm {r}, expected '
                             f'{sh.rows[t // n_pairs][0]}', hist())
                    return False
                allowed = sh.rows[t // n_pairs][1]
                got = float(row['dissimilarity'])
                if a == b or (allowed is not None and frozenset((a, b)) not in allowed):
                    okv = np.isnan(got)
                else:
                    want = w.value(r, a, b)
                    okv = got == want or (np.isnan(got) and np.isnan(want))
                if not okv or ref._key(row['name_1']) != w.name[a] or ref._key(row['name_2']) != w.name[b] or \
                        str(row['sess']) != w.rdesc[r]['sess']:
                    ctx.fail(op, dict(sig, what='row_content'), f'DataFrame row (rdm {r}, conds {a},{b}) carries '
                             f'{got!r} / labels {row["name_1"]!r},{row["name_2"]!r} sess {row["sess"]!r}; expected value '
                             f'{w.value(r, a, b) if a != b else None!r} labels {w.name[a]!r},{w.name[b]!r} sess '
                             f'{w.rdesc[r]["sess"]!r} allowed={allowed is None or frozenset((a, b)) in allowed}', hist())
                    return False
        else:
            raise ValueError(op)
    except InvariantBroken as exc:
        ctx.fail(op, dict(sig, what='class_invariant'), f'class invariant broken during {op}: {exc}', hist())
        return False
    except Exception as exc:
        import traceback
        ctx.fail(op, dict(sig, what='raised', exception=type(exc).__name__),
                 f'{op} raised {type(exc).__name__}: {exc} | {traceback.format_exc(limit=3)}', hist())
        return False
    ctx.case(op, sig, sample=hist() if rng.integers(40) == 0 else None)
    okk = run.verify_all(op, sig, hist, touched, before)
    if op == 'permute' and okk:
        # the permuted objects carry the array-valued object descriptor 'p_inv' (a documented gimmick for the
        # inverse); they are verified here and not kept, so that later merges do not demote an array-valued
        # descriptor to an rdm descriptor (which the DataFrame export cannot represent)
        run.pool = run.pool[:-2]
    return okk


def random_sequence(ctx, length):
    rng = ctx.rng
    w = World(rng)
    run = Run(ctx, w)
    for _ in range(int(rng.integers(2, 4))):
        run.add(*w.new_source(int(rng.integers(1, 4))))
    if not run.verify_all('init', dict(op='init'), lambda **k: dict(op='init', **k)):
        return
    for s in range(length):
        op = OPS[int(rng.integers(len(OPS)))]
        if not step(run, op):
            ctx.count('sequences_aborted')
            return
    ctx.count('sequences_completed')


def derived_index_scenario(ctx):
    """selections by the default 'index' descriptor on an object that is itself a selection: its index values are the
    ones it inherited (with gaps, later with repeats), and they -- not the row positions -- are what a request names"""
    rng = ctx.rng
    w = World(rng)
    run = Run(ctx, w)
    n = int(rng.integers(4, 7))
    obj, sh = w.new_source(n)
    run.add(obj, sh)
    rows = sorted(int(i) for i in rng.choice(n, size=3, replace=False))
    sig = dict(op='subsample', arg='index/derived')
    hist = lambda **k: dict(op='derived_index', n_rdm=n, rows=rows, **k)  # noqa: E731
    try:
        d = obj.subset('index', rows) if rng.integers(2) else obj[rows]
        run.add(d, Shadow([sh.rows[i] for i in rows], list(sh.conds)))
        vals = [rows[2], rows[0], rows[2]]
        e = d.subsample('index', vals if rng.integers(2) else np.array(vals))
        run.add(e, Shadow([sh.rows[v] for v in vals], list(sh.conds)))
        f = d.subset('index', [rows[1], rows[2]])
        run.add(f, Shadow([sh.rows[rows[1]], sh.rows[rows[2]]], list(sh.conds)))
        # the index of e has repeats: naming the repeated value selects both copies
        g = e.subset('index', rows[2])
        run.add(g, Shadow([sh.rows[rows[2]], sh.rows[rows[2]]], list(sh.conds)))
    except Exception as exc:
        ctx.fail('subsample', dict(sig, what='raised', exception=type(exc).__name__), f'selection by index on a derived '
                 f'object raised {exc!r}', hist())
        return
    ctx.case('subsample', sig)
    run.verify_all('subsample', sig, hist, touched=(1, 2, 3, 4))


def repeated_selection_scenario(ctx):
    """the same selection asked for twice on one object, with an in-place reorder / sort in between: the second answer is
    that of the object as it is now"""
    rng = ctx.rng
    w = World(rng)
    run = Run(ctx, w)
    obj, sh = w.new_source(int(rng.integers(1, 4)))
    run.add(obj, sh)
    vals = [int(c) for c in rng.choice(sh.conds, size=max(2, len(sh.conds) // 2), replace=False)]
    sig = dict(op='subset_pattern', arg='puid/repeated')
    hist = lambda **k: dict(op='repeated_selection', conds=list(sh.conds), values=vals, **k)  # noqa: E731
    try:
        first = obj.subset_pattern('puid', vals)
        run.add(first, Shadow([(r, a) for r, a in sh.rows], [c for c in sh.conds if c in vals]))
        if rng.integers(2):
            perm = [int(i) for i in rng.permutation(len(sh.conds))]
            obj.reorder(np.array(perm))
            sh.conds = [sh.conds[i] for i in perm]
        else:
            obj.sort_by(puid=[int(v) for v in sorted(sh.conds, reverse=True)])
            sh.conds = sorted(sh.conds, reverse=True)
        second = obj.subset_pattern('puid', vals)
        run.add(second, Shadow([(r, a) for r, a in sh.rows], [c for c in sh.conds if c in vals]))
        third = obj.subsample_pattern('puid', vals)
        run.add(third, Shadow([(r, a) for r, a in sh.rows], [c for c in sh.conds if c in vals]))   # (object order)
    except Exception as exc:
        ctx.fail('subset_pattern', dict(sig, what='raised', exception=type(exc).__name__), f'repeated selection raised '
                 f'{exc!r}', hist())
        return
    ctx.case('subset_pattern', sig)
    run.verify_all('subset_pattern', sig, hist, touched=(0, 1, 2, 3))


def exhaustive_short(ctx):
    """all sequences of length <= 3 of the core operations over a 3-condition, 2-RDM object (fixed arguments
    chosen by a per-sequence generator seeded from the sequence itself)"""
    core = ['getitem', 'subset', 'subsample', 'subset_pattern', 'subsample_pattern', 'reorder', 'sort_by', 'append',
            'concat', 'copy', 'from_partials', 'permute', 'dict_roundtrip']
    n = 0
    for L in (1, 2, 3):
        for seq in itertools.product(core, repeat=L):
            if ctx.shard != (n % ctx.nshards):
                n += 1
                continue
            n += 1
            rng = np.random.default_rng([ctx.seed, n])
            w = World(rng, n_cond=3, tiny=True)
            w.rng = rng
            run = Run(ctx, w)
            run.add(*w.new_source(2))
            run.add(*w.new_source(1))
            okk = True
            for op in seq:
                if not step(run, op):
                    okk = False
                    break
            ctx.count('exhaustive_sequences')
            if okk:
                ctx.count('sequences_completed')
    return n


def check_n_cond(ctx):
    """the number of conditions is recovered from the vector length for every size"""
    for n in range(1, 47):
        L = n * (n - 1) // 2
        got = _get_n_from_reduced_vectors(np.zeros((1, L)))
        ctx.case('n_cond_from_length', dict(op='n_cond_from_length'), nontrivial=n > 2)
        want = max(n, 1) if L > 0 else 1
        if L > 0 and got != n:
            ctx.fail('n_cond_from_length', dict(op='n_cond_from_length', what='size'), f'length {L} -> n_cond {got}, '
                     f'expected {n}', dict(n=n))
        if n >= 2:
            r = RDMs(np.arange(L, dtype=float).reshape(1, L))
            if r.n_cond != n or r.get_matrices().shape != (1, n, n):
                ctx.fail('n_cond_from_length', dict(op='n_cond_from_length', what='rdms'), f'RDMs of vector length {L} '
                         f'has n_cond {r.n_cond}', dict(n=n))


def run(ctx):
    have = install_invariant()
    if not have:
        ctx.notes.append('icontract unavailable: class invariant not installed')
    check_n_cond(ctx)
    n = ctx.n(150, 1500)
    length = 12 if ctx.tier == 'quick' else 25
    for it in range(n):
        if ctx.out_of_time():
            ctx.notes.append(f'time budget reached after {it} sequences')
            break
        random_sequence(ctx, length)
        if it % 15 == 0:
            derived_index_scenario(ctx)
        if it % 15 == 7:
            repeated_selection_scenario(ctx)
    if ctx.thorough:
        exhaustive_short(ctx)
    ctx.count('invariant_evaluations', _inv['n'])
