"""C02  Cross-validated distances are the mean of between-fold products only.

Monitor: result monitor on calc_rdm(method='crossnobis'|'poisson_cv') read through returned labels.
Oracle: explicit loop over ordered pairs of distinct folds on fold-wise condition means
(vlib.ref.crossval_pairs) + influence observers (every fold contributes; fold-constant offsets
cancel) + invariances (row order, fold relabelling, channel permutation with precision).
"""
import numpy as np

from rsatoolbox.data import Dataset
from rsatoolbox.rdm import calc_rdm, calc_rdm_crossnobis
from vlib import gen, ref
from vlib.core import close

LEVEL = 'exploration'
LEVEL_TEXT = ('Seeded exploration of the real crossnobis / poisson_cv estimators under a result monitor: '
              'every returned (label pair -> value) is compared with an explicit average over ordered '
              'pairs of distinct folds, and influence/invariance observers run on the same case. '
              'Held on the K executions observed.')
LEVEL_NOTE = ('Trusted: numpy arithmetic of the reference. Assumes fold-balanced designs, SPD precisions '
              'with cond<=1e2; per-fold precisions are associated with folds in sorted fold-label order '
              '(the order np.unique gives, which is what the API documents by position).')
DESIGN_REF = 'DESIGN.md section 4 / C02'
TECHNIQUE = 'runtime result monitor vs ordered-fold-pair loop reference + influence/invariance observers'
RULE = ('seeded generator over {estimator x precision class (none/one/per-fold) x cond label kind x fold '
        'label kind x explicit/default folds x repetitions per fold x remove_mean}; non-trivial: >=2 '
        'conditions, >=2 folds; distinct = configuration signature')
ASSUMPTIONS = ['fold-balanced designs only (every condition equally often in every fold)',
               'SPD precisions, condition number <= 1e2', 'poisson_cv: non-negative data',
               'tolerance rtol 1e-9 / atol 1e-10']
REQUIRED = ['check:same_objects_twice', 'check:cv_vs_reference', 'check:every_fold_contributes', 'check:fold_offset_cancels',
            'check:inv_row_order', 'check:inv_fold_relabel', 'check:inv_channel_perm',
            'check:default_folds']
REACH = ['calc_rdm_crossnobis', 'calc_rdm_poisson_cv', '_gen_default_cv_descriptor',
         'Dataset.sort_by', '_calc_rdm_crossnobis_single']
FAIL_KEYS = ['method', 'prec', 'folds', 'remove_mean', 'what']
TIME_BUDGET = {'quick': 60, 'thorough': 600}
RT, AT = 1e-9, 1e-10


def make_case(rng, method=None, prec_kind=None, force=None):
    method = method or gen.pick(rng, ['crossnobis', 'crossnobis', 'poisson_cv'])
    n_cond = int(rng.integers(2, 7))
    n_fold = int(rng.integers(2, 6))
    reps = int(rng.integers(1, 4))
    n_ch = int(rng.integers(1, 7))
    ckind = gen.pick(rng, gen.LABEL_KINDS)
    fkind = gen.pick(rng, gen.LABEL_KINDS + ['floatts'])   # floatts: session time stamps, distinct but 'close' floats
    if force == 'many_reps_str':  # >= 10 occurrences per condition with string labels
        n_fold, reps, ckind = 4, 3, gen.pick(rng, ['str', 'strnum'])
    if force == 'many_reps_char':  # single-letter labels, more repetitions than one character can count
        n_fold, reps, ckind = 4, 3, 'char'
    if force == 'bool_labels':     # two conditions labelled False / True, several repetitions
        n_cond, n_fold, reps, ckind = 2, int(rng.integers(3, 5)), 1, 'bool'
    if ckind == 'char':
        clabs = [str(c) for c in rng.choice(list('abcdefghij'), size=n_cond, replace=False)]
    elif ckind == 'bool':
        clabs = [False, True]
    else:
        clabs = gen.labels(rng, n_cond, ckind)
    flabs = gen.labels(rng, n_fold, fkind)
    cond, fold = [], []
    for f in range(n_fold):
        for c in range(n_cond):
            for _ in range(reps):
                cond.append(c)
                fold.append(f)
    order = rng.permutation(len(cond))
    cond = [cond[i] for i in order]
    fold = [fold[i] for i in order]
    # storage of the measurements: the same numbers as float64, as (narrow) integers or as booleans (single precision is
    # left out: the library legitimately computes float32 input in float32, 1e-8 relative differences)
    vkind = gen.pick(rng, ['pos', 'posint', 'uint8']) if method == 'poisson_cv' else \
        gen.pick(rng, ['normal', 'normal', 'smallint_f', 'int', 'uint8', 'int8', 'bool'])
    meas = gen.values(rng, (len(cond), n_ch), vkind)
    if method == 'crossnobis':
        prec_kind = prec_kind or gen.pick(rng, ['none', 'one', 'per_fold'])
    else:
        prec_kind = 'none'
    case = dict(method=method, n_cond=n_cond, n_fold=n_fold, reps=reps, n_ch=n_ch, ckind=ckind,
                fkind=fkind, clabs=clabs, flabs=flabs, cond=cond, fold=fold, meas=meas, vkind=vkind,
                prec_kind=prec_kind, remove_mean=bool(rng.integers(2)) and method == 'crossnobis',
                container=gen.pick(rng, gen.CONTAINERS),
                prior_lambda=float(gen.pick(rng, [1.0, 0.5])), prior_weight=float(gen.pick(rng, [0.1, 1.0])))
    # unit of the precision: data recorded in large or small units have precisions of 1e-12 ... 1e6 (the distance is
    # linear in the precision, so are all absolute tolerances below)
    case['pscale'] = float(10.0 ** int(rng.integers(-12, 7))) if rng.integers(2) else 1.0
    case['prec'] = gen.spd(rng, n_ch, 100.0) * case['pscale'] if prec_kind == 'one' else None
    # per-fold precisions, keyed by fold label
    case['precs'] = {flabs[f]: gen.spd(rng, n_ch, 100.0) * case['pscale'] for f in range(n_fold)} \
        if prec_kind == 'per_fold' else None
    if prec_kind == 'none':
        case['pscale'] = 1.0
    return case


def as_flag(case):
    """the remove_mean switch as a caller may hold it: a Python bool, a numpy bool (the result of a comparison or an
    element of a boolean array) or the integer 0/1 -- its truth value is what counts"""
    v = bool(case['remove_mean'])
    form = (len(case['cond']) + case['n_ch']) % 3
    return v if form == 0 else (np.bool_(v) if form == 1 else int(v))


def sig_of(case, **extra):
    s = dict(method=case['method'], prec=case['prec_kind'], cond_labels=case['ckind'],
             fold_labels=case['fkind'], reps=case['reps'], remove_mean=case['remove_mean'],
             n_fold='2' if case['n_fold'] == 2 else '3+', container=case['container'],
             values=case['vkind'], folds='explicit')
    s.update(extra)
    return s


def call(case, meas=None, cond=None, fold=None, flabs=None, prec=None, precs=None, default_folds=False):
    meas = case['meas'] if meas is None else meas
    cond = case['cond'] if cond is None else cond
    fold = case['fold'] if fold is None else fold
    flabs = case['flabs'] if flabs is None else flabs
    prec = case['prec'] if prec is None else prec
    precs = case['precs'] if precs is None else precs
    od = {'cond': gen.wrap([case['clabs'][c] for c in cond], case['container'])}
    if not default_folds:
        od['fold'] = gen.wrap([flabs[f] for f in fold], case['container'])
    ds = Dataset(np.array(meas), obs_descriptors=od, descriptors={'subj': 's1'})
    kw = dict(method=case['method'], descriptor='cond')
    if not default_folds:
        kw['cv_descriptor'] = 'fold'
    if case['method'] == 'crossnobis':
        kw['remove_mean'] = as_flag(case)
        if prec is not None:
            kw['noise'] = prec.copy()
        elif precs is not None:
            # positional list in sorted fold-label order
            keys = sorted(set(flabs[f] for f in fold))
            kw['noise'] = [precs[k].copy() for k in keys]
    else:
        kw['prior_lambda'] = case['prior_lambda']
        kw['prior_weight'] = case['prior_weight']
    return calc_rdm(ds, **kw)


def reference(case, meas=None, cond=None, fold=None, flabs=None, prec=None, precs=None):
    meas = case['meas'] if meas is None else meas
    cond = case['cond'] if cond is None else cond
    fold = case['fold'] if fold is None else fold
    flabs = case['flabs'] if flabs is None else flabs
    prec = case['prec'] if prec is None else prec
    precs = case['precs'] if precs is None else precs
    return ref.crossval_pairs(meas, [case['clabs'][c] for c in cond], [flabs[f] for f in fold],
                              method=case['method'], prec=prec, prec_per_fold=precs,
                              remove_mean=case['remove_mean'], prior_lambda=case['prior_lambda'],
                              prior_weight=case['prior_weight'])


def witness(case, **extra):
    d = {k: case[k] for k in ('method', 'clabs', 'flabs', 'cond', 'fold', 'meas', 'prec', 'precs',
                              'remove_mean', 'prior_lambda', 'prior_weight', 'container')}
    d.update(extra)
    return d


def pairs_equal(ctx, check, sig, rdms, want, case, what='', **wx):
    try:
        lab, got = ref.rdms_as_pairs(rdms, 'cond')
    except Exception as exc:
        ctx.fail(check, sig, f'{what} cannot read through labels: {exc!r}', witness(case, **wx))
        return False
    if set(got) != set(want):
        ctx.fail(check, sig, f'{what} label pairs differ: {sorted(map(str, lab))}', witness(case, **wx))
        return False
    for k, (v1, v2) in got.items():
        if not (close(v1, want[k], RT, AT * case['pscale']) and close(v2, want[k], RT, AT * case['pscale'])):
            ctx.fail(check, sig, f'{what} pair {sorted(map(str, k))}: got {v1!r} want {want[k]!r}',
                     witness(case, **wx))
            return False
    return True


def as_pairs(rdms):
    return {k: v[0] for k, v in ref.rdms_as_pairs(rdms, 'cond')[1].items()}


def run_case(ctx, case):
    rng = ctx.rng
    sig = sig_of(case)
    ok, base = ctx.guarded('cv_vs_reference', sig, call, case, data=lambda: witness(case))
    if not ok:
        return
    want = reference(case)
    ctx.case('cv_vs_reference', sig, sample={'method': case['method'], 'cond': [case['clabs'][c] for c in case['cond']],
                                             'fold': [case['flabs'][f] for f in case['fold']],
                                             'prec': case['prec_kind']})
    good = pairs_equal(ctx, 'cv_vs_reference', sig, base, want, case)
    if base.n_rdm != 1 or base.n_cond != case['n_cond']:
        ctx.fail('cv_vs_reference', sig, f'shape n_rdm={base.n_rdm} n_cond={base.n_cond}', witness(case))
    if not good:
        return
    base_pairs = as_pairs(base)

    # (0) the same dataset object and the same precision object(s) handed in twice: the second result equals the
    # first and neither the data nor the precisions were altered (call() above hands over fresh copies every time)
    od = {'cond': gen.wrap([case['clabs'][c] for c in case['cond']], case['container']),
          'fold': gen.wrap([case['flabs'][f] for f in case['fold']], case['container'])}
    ds_same = Dataset(np.array(case['meas']), obs_descriptors=od)
    kw = dict(method=case['method'], descriptor='cond', cv_descriptor='fold')
    noise_obj = None
    if case['method'] == 'crossnobis':
        kw['remove_mean'] = as_flag(case)
        if case['prec'] is not None:
            noise_obj = case['prec'].copy()
        elif case['precs'] is not None:
            keys = sorted(set(case['flabs'][f] for f in case['fold']))
            noise_obj = [case['precs'][k].copy() for k in keys]
            if rng.integers(2):
                noise_obj = np.array(noise_obj)
        if noise_obj is not None:
            kw['noise'] = noise_obj
    else:
        kw.update(prior_lambda=case['prior_lambda'], prior_weight=case['prior_weight'])
    noise_before = None if noise_obj is None else [np.array(x, copy=True) for x in
                                                   (noise_obj if not isinstance(noise_obj, np.ndarray) or noise_obj.ndim == 3
                                                    else [noise_obj])]
    meas_before = np.array(ds_same.measurements, copy=True)
    if rng.integers(2):
        # the dataset object has a history: another estimator (and a noise estimate) looked at it before, grouping the
        # same rows by the same descriptor -- whatever they may have left on the object must not matter
        try:
            calc_rdm(ds_same, method='euclidean', descriptor='cond')
            from rsatoolbox.data.noise import prec_from_unbalanced
            if case['n_ch'] > 1 and case['method'] == 'crossnobis':
                prec_from_unbalanced(ds_same, obs_desc='cond')
            ctx.count('datasets_with_history')
        except Exception as exc:   # noqa
            ctx.notes.append(f'warm-up call raised {exc!r}')
    ok1, first = ctx.guarded('same_objects_twice', sig, calc_rdm, ds_same, data=lambda: witness(case), **kw)
    ok2, second = ctx.guarded('same_objects_twice', sig, calc_rdm, ds_same, data=lambda: witness(case), **kw)
    if ok1 and ok2:
        ctx.case('same_objects_twice', sig)
        noise_after = None if noise_obj is None else [np.asarray(x) for x in
                                                      (noise_obj if not isinstance(noise_obj, np.ndarray) or noise_obj.ndim == 3
                                                       else [noise_obj])]
        if not np.array_equal(np.asarray(ds_same.measurements), meas_before):
            ctx.fail('same_objects_twice', dict(sig, what='data_modified'), 'calc_rdm altered the dataset it was given',
                     witness(case))
        elif noise_before is not None and not all(np.array_equal(a, b) for a, b in zip(noise_before, noise_after)):
            ctx.fail('same_objects_twice', dict(sig, what='noise_modified'), 'calc_rdm altered the precision matrices it '
                     'was given', witness(case))
        elif not pairs_equal(ctx, 'same_objects_twice', sig, first, want, case, what='first call on a used dataset object'):
            pass
        elif not pairs_equal(ctx, 'same_objects_twice', sig, second, want, case, what='second call on the same objects'):
            pass

    if case['n_ch'] == 1 and case['remove_mean']:
        ctx.count('skipped_all_zero')  # one channel with its mean removed: everything is 0
        return
    # (i) every fold contributes: replace one fold's data, result must change
    f_hit = int(rng.integers(case['n_fold']))
    meas2 = np.array(case['meas'], dtype=float)
    rows = [i for i, f in enumerate(case['fold']) if f == f_hit]
    if case['method'] == 'poisson_cv':
        meas2[rows] = meas2[rows] * 3.0 + rng.uniform(1, 5, size=(len(rows), case['n_ch']))
    else:
        meas2[rows] = rng.standard_normal((len(rows), case['n_ch'])) * 50
    ok, r2 = ctx.guarded('every_fold_contributes', sig, call, case, meas=meas2,
                         data=lambda: witness(case, fold_hit=f_hit))
    if ok:
        ctx.case('every_fold_contributes', sig)
        want2 = reference(case, meas=meas2)
        if all(close(want2[k], want[k], 1e-9, 1e-10 * case['pscale']) for k in want2):
            ctx.count('influence_not_expected')  # coincidence (e.g. the other folds cancel)
        pairs_equal(ctx, 'every_fold_contributes', sig, r2, want2, case,
                    what=f'after replacing fold {case["flabs"][f_hit]!r}', meas2=meas2, fold_hit=f_hit)

    # (ii) crossnobis: fold-specific offset identical for all conditions cancels
    if case['method'] == 'crossnobis' and not case['remove_mean']:
        meas3 = np.array(case['meas'], dtype=float)
        for f in range(case['n_fold']):
            off = rng.standard_normal(case['n_ch']) * 3
            rows = [i for i, g in enumerate(case['fold']) if g == f]
            meas3[rows] += off
        ok, r3 = ctx.guarded('fold_offset_cancels', sig, call, case, meas=meas3,
                             data=lambda: witness(case, meas3=meas3))
        if ok:
            ctx.case('fold_offset_cancels', sig)
            p3 = as_pairs(r3)
            for k in p3:
                if not close(p3[k], base_pairs[k], 1e-7, 1e-8 * case['pscale']):
                    ctx.fail('fold_offset_cancels', sig, f'fold-constant offsets changed pair '
                             f'{sorted(map(str, k))}: {p3[k]!r} vs {base_pairs[k]!r}',
                             witness(case, meas3=meas3))
                    break

    # invariance: row order
    perm = [int(i) for i in rng.permutation(len(case['cond']))]
    ok, r4 = ctx.guarded('inv_row_order', sig, call, case, meas=case['meas'][perm],
                         cond=[case['cond'][i] for i in perm], fold=[case['fold'][i] for i in perm],
                         data=lambda: witness(case, perm=perm))
    if ok:
        ctx.case('inv_row_order', sig)
        pairs_equal(ctx, 'inv_row_order', sig, r4, base_pairs, case, what='rows permuted', perm=perm)

    # invariance: fold relabelling (other label kind, permuted ids); per-fold precisions follow
    for _ in range(1):
        nk = gen.pick(rng, [k for k in gen.LABEL_KINDS])
        newl = gen.labels(rng, case['n_fold'], nk)
        precs2 = None
        if case['precs'] is not None:
            precs2 = {newl[f]: case['precs'][case['flabs'][f]] for f in range(case['n_fold'])}
        s2 = dict(sig, new_fold_labels=nk)
        ok, r5 = ctx.guarded('inv_fold_relabel', s2, call, case, flabs=newl, precs=precs2,
                             data=lambda: witness(case, new_fold_labels=newl))
        if ok:
            ctx.case('inv_fold_relabel', s2)
            pairs_equal(ctx, 'inv_fold_relabel', s2, r5, base_pairs, case,
                        what=f'folds relabelled {newl}', new_fold_labels=newl)

    # invariance: channel permutation with precision permuted alike
    cp = rng.permutation(case['n_ch'])
    prec_p = None if case['prec'] is None else case['prec'][np.ix_(cp, cp)]
    precs_p = None if case['precs'] is None else {k: v[np.ix_(cp, cp)] for k, v in case['precs'].items()}
    ok, r6 = ctx.guarded('inv_channel_perm', sig, call, case, meas=case['meas'][:, cp], prec=prec_p,
                         precs=precs_p, data=lambda: witness(case, channel_perm=cp))
    if ok:
        ctx.case('inv_channel_perm', sig)
        try:
            p6 = as_pairs(r6)
            for k in p6:
                if not close(p6[k], base_pairs[k], 1e-8, 1e-9 * case['pscale']):
                    ctx.fail('inv_channel_perm', sig, f'channel permutation changed pair '
                             f'{sorted(map(str, k))}: {p6[k]!r} vs {base_pairs[k]!r}',
                             witness(case, channel_perm=cp))
                    break
        except Exception as exc:
            ctx.fail('inv_channel_perm', sig, repr(exc), witness(case))

    # default fold descriptor: k-th occurrence of a condition is fold k
    seen = {}
    dfold = []
    for c in case['cond']:
        dfold.append(seen.get(c, 0))
        seen[c] = seen.get(c, 0) + 1
    if case['precs'] is None:
        nf = max(dfold) + 1
        s3 = dict(sig, folds='default')
        ok, r7 = ctx.guarded('default_folds', s3, call, case, default_folds=True,
                             data=lambda: witness(case, default_fold=dfold))
        if ok:
            ctx.case('default_folds', s3)
            want7 = reference(case, fold=dfold, flabs=list(range(nf)))
            pairs_equal(ctx, 'default_folds', s3, r7, want7, case, what='default folds', default_fold=dfold)


def check_dataset_list(ctx, case):
    """crossnobis of several datasets in one call, one precision per DATASET handed over as a list or as one stacked
    (n_dataset x P x P) array (what prec_from_residuals returns for a list): RDM k uses precision k"""
    rng = ctx.rng
    if case['method'] != 'crossnobis' or case['prec_kind'] == 'per_fold':
        return
    n_ds = int(rng.integers(2, 4))
    metas = []
    for _ in range(n_ds):
        meas = gen.values(rng, case['meas'].shape, 'normal')
        metas.append((meas, gen.spd(rng, case['n_ch'], 100.0)))
    od = lambda: {'cond': gen.wrap([case['clabs'][c] for c in case['cond']], case['container']),  # noqa: E731
                  'fold': gen.wrap([case['flabs'][f] for f in case['fold']], case['container'])}
    dss = [Dataset(np.array(m), obs_descriptors=od(), descriptors={'subj': f's{k}'}) for k, (m, _) in enumerate(metas)]
    form = gen.pick(rng, ['list', 'stack'])
    noise = [pm.copy() for _, pm in metas] if form == 'list' else np.array([pm for _, pm in metas])
    sig = sig_of(case, dataset_list=form, prec='per_dataset')
    wit = lambda **k: witness(case, datasets=[m for m, _ in metas], precisions=[pm for _, pm in metas], form=form, **k)  # noqa
    ok, rd = ctx.guarded('cv_vs_reference', sig, calc_rdm, dss, method='crossnobis', descriptor='cond', cv_descriptor='fold',
                         noise=noise, remove_mean=as_flag(case), data=wit)
    if not ok:
        return
    ctx.case('cv_vs_reference', sig)
    if rd.n_rdm != n_ds:
        ctx.fail('cv_vs_reference', dict(sig, what='n_rdm'), f'{rd.n_rdm} RDMs for {n_ds} datasets', wit())
        return
    for k, (m, pm) in enumerate(metas):
        want = reference(dict(case, pscale=1.0), meas=m, prec=pm)
        if not pairs_equal(ctx, 'cv_vs_reference', sig, rd[k], want, dict(case, pscale=1.0),
                           what=f'dataset {k} of {n_ds} (precisions as {form})'):
            return


def run(ctx):
    n = ctx.n(150, 2400)
    forced = [('crossnobis', 'none'), ('crossnobis', 'one'), ('crossnobis', 'per_fold'),
              ('poisson_cv', None), ('crossnobis', 'none', 'many_reps_str'),
              ('poisson_cv', None, 'many_reps_str'), ('crossnobis', 'none', 'many_reps_char'),
              ('poisson_cv', None, 'many_reps_char'), ('crossnobis', 'one', 'bool_labels'),
              ('poisson_cv', None, 'bool_labels')]
    for it in range(n):
        if ctx.out_of_time():
            ctx.notes.append(f'time budget reached after {it} cases')
            break
        if it < len(forced):
            case = make_case(ctx.rng, *forced[it])
        else:
            case = make_case(ctx.rng)
        run_case(ctx, case)
        if it % 4 == 0:
            check_dataset_list(ctx, case)
