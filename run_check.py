#!/usr/bin/env python3
"""Single entry point of the runtime-monitoring checks.

    run_check.py <ID> --tier quick|thorough [--seed N] [--replay FILE]

exit 0  property held on everything explored (KNOWN-FINDING lines may be printed)
exit 1  + line "VIOLATION property=<ID> replay=<path>"
exit 2  + line "INCONCLUSIVE property=<ID> reason=..."  (a deciding monitor was never reached,
        a shard's watchdog fired, ...) -- never folded into held or violated
"""
import argparse
import importlib
import json
import os
import shutil
import subprocess
import sys
import tempfile
import time

HERE = os.path.dirname(os.path.abspath(__file__))
sys.path.insert(0, HERE)
from vlib import env  # noqa: E402

env.reexec_if_needed([os.path.abspath(__file__)] + sys.argv[1:])

from vlib import core, reach  # noqa: E402


def run_shard(prop, tier, seed, shard, nshards, only=None):
    mod = importlib.import_module(f'props.{prop.lower()}')
    pkg = env.assert_tree()
    ctx = core.Ctx(prop, tier, seed, shard, nshards)
    ctx.only = only
    fk = getattr(mod, 'FAIL_KEYS', None)
    ctx.fail_keys = None if fk is None else set(fk) | {'exception', 'aspect'}
    budget = getattr(mod, 'TIME_BUDGET', {'quick': 90, 'thorough': 900})
    ctx.deadline = time.time() + budget.get(tier, 600)
    import warnings
    warnings.simplefilter('ignore')
    reach.start(pkg)
    try:
        mod.run(ctx)
    except Exception as exc:  # harness error: never a verdict about the property
        import traceback
        ctx.notes.append('HARNESS-ERROR ' + traceback.format_exc(limit=12))
        ctx.count('harness_errors')
    finally:
        reach.stop()
    st = ctx.state()
    st['reach'] = reach.by_name()
    return mod, st


def main():
    ap = argparse.ArgumentParser()
    ap.add_argument('prop')
    ap.add_argument('--tier', default=os.environ.get('VERIF_TIER', 'quick'),
                    choices=['quick', 'thorough'])
    ap.add_argument('--seed', type=int, default=int(os.environ.get('VERIF_SEED', '0')))
    ap.add_argument('--shard', type=int, default=None)
    ap.add_argument('--nshards', type=int, default=None)
    ap.add_argument('--state-out', default=None)
    ap.add_argument('--replay', default=None)
    ap.add_argument('--no-evidence', action='store_true')
    args = ap.parse_args()
    prop = args.prop.upper()
    t0 = time.time()

    if args.replay:
        with open(args.replay) as f:
            rep = json.load(f)
        prop = rep['property']
        mod, st = run_shard(prop, rep['tier'], rep['seed'], rep['shard'],
                            args.nshards or 1)
        merged = core.merge_states([st])
        same = [v for v in merged['violations'] if v['check'] == rep['check']
                and v['sig'] == rep['sig']]
        print(f'replay: {len(same)} violation(s) with the recorded check/signature reproduced')
        rc = core.finish(prop, mod, rep['tier'], rep['seed'], merged, time.time() - t0, [],
                         write_evidence=False)
        sys.exit(1 if same else rc)

    if args.shard is not None:  # worker
        mod, st = run_shard(prop, args.tier, args.seed, args.shard, args.nshards or 1)
        with open(args.state_out, 'w') as f:
            json.dump(st, f)
        sys.exit(0)

    mod = importlib.import_module(f'props.{prop.lower()}')
    nshards = args.nshards or getattr(mod, 'SHARDS', {'quick': 1, 'thorough': 16})[args.tier]
    inconclusive = []
    states = []
    if nshards == 1:
        mod, st = run_shard(prop, args.tier, args.seed, 0, 1)
        states.append(st)
    else:
        scratch = tempfile.mkdtemp(prefix=f'verif-{prop}-')
        try:
            procs = []
            budget = getattr(mod, 'TIME_BUDGET', {'quick': 90, 'thorough': 900})[args.tier]
            for k in range(nshards):
                out = os.path.join(scratch, f'shard{k}.json')
                log = open(os.path.join(scratch, f'shard{k}.log'), 'w')
                cmd = [env.PY, os.path.abspath(__file__), prop, '--tier', args.tier,
                       '--seed', str(args.seed), '--shard', str(k), '--nshards', str(nshards),
                       '--state-out', out]
                procs.append((k, out, log, subprocess.Popen(
                    cmd, env=env.child_env(), stdout=log, stderr=subprocess.STDOUT)))
            hard = time.time() + budget * 2 + 120
            for k, out, log, p in procs:
                try:
                    p.wait(timeout=max(1, hard - time.time()))
                except subprocess.TimeoutExpired:
                    p.kill()
                    inconclusive.append(f'shard {k} watchdog fired')
                log.close()
                if os.path.exists(out):
                    with open(out) as f:
                        states.append(json.load(f))
                elif not any(f'shard {k} ' in r for r in inconclusive):
                    with open(log.name) as f:
                        tail = f.read()[-1500:]
                    inconclusive.append(f'shard {k} produced no state (rc={p.returncode}): '
                                        + tail.replace('\n', ' | '))
        finally:
            shutil.rmtree(scratch, ignore_errors=True)

    merged = core.merge_states(states)
    reach_all = {}
    for st in states:
        for k, v in st.get('reach', {}).items():
            reach_all[k] = reach_all.get(k, 0) + v
    if merged['counters'].get('harness_errors'):
        inconclusive.append('harness error: ' + ' || '.join(
            n.replace('\n', ' | ')[-600:] for n in merged['notes'] if n.startswith('HARNESS-ERROR'))[:1500])
    for name in getattr(mod, 'INCONCLUSIVE_IF', []):
        if merged['counters'].get(name, 0) > 0:
            inconclusive.append(f'monitor counter "{name}" = {merged["counters"][name]}: ' + ' || '.join(
                n for n in merged['notes'] if not n.startswith('HARNESS-ERROR'))[:600])
    for name in getattr(mod, 'REQUIRED', []):
        if merged['counters'].get(name, 0) <= 0:
            inconclusive.append(f'required monitor counter "{name}" is zero')
    for fn in getattr(mod, 'REACH', []):
        if reach_all.get(fn, 0) <= 0:
            inconclusive.append(f'anchored function "{fn}" was never entered')
    if merged['counters'].get('call_timeouts'):
        inconclusive.append(f"{merged['counters']['call_timeouts']} library call(s) hit the {core.CALL_TIMEOUT_S}s watchdog "
                            f"(first: {json.dumps(merged['timeouts'][0]['sig']) if merged.get('timeouts') else '?'})")
    if merged['evaluations'] == 0:
        inconclusive.append('no oracle evaluation happened')
    rc = core.finish(prop, mod, args.tier, args.seed, merged, time.time() - t0, inconclusive,
                     reach={k: reach_all[k] for k in sorted(reach_all)},
                     write_evidence=not args.no_evidence)
    sys.exit(rc)


if __name__ == '__main__':
    main()
