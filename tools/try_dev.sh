#!/bin/sh
# usage: try_dev.sh <seeded-id> [tier]  -- apply a seeded change to the scratch worktree ${DEVWT:-/tmp/wt/dev}, run the property's check
# against it (RSATOOLBOX_SRC), undo.  Development aid; the recorded detection runs are done by detect_all.py on /repo.
id=$1; tier=${2:-quick}; prop=$(echo $id | cut -d- -f1)
git -C ${DEVWT:-/tmp/wt/dev} apply /verif/seeded/$id/patch.diff || { echo "$id APPLY FAILED"; exit 3; }
out=$(RSATOOLBOX_SRC=${DEVWT:-/tmp/wt/dev}/src python3 /verif/run_check.py $prop --tier $tier --no-evidence 2>&1); rc=$?
git -C ${DEVWT:-/tmp/wt/dev} checkout -- .
echo "$id $tier rc=$rc $(echo "$out" | grep -v KNOWN | grep VIOLATION | head -2 | cut -c1-260)"
