#!/bin/sh
# usage: mk_worktree.sh <name>  -> creates /tmp/wt/<name> (scratch worktree of /repo HEAD with the
# git-ignored compiled kernel copied in, so the test-suite imports there)
set -e
d=/tmp/wt/$1
mkdir -p /tmp/wt
git -C /repo worktree add --detach -f "$d" HEAD >/dev/null 2>&1
cp /repo/src/rsatoolbox/cengine/similarity.c /repo/src/rsatoolbox/cengine/similarity*.so "$d/src/rsatoolbox/cengine/"
mkdir -p "$d/deliver"
echo "$d"
