#!/bin/sh
# usage: mk_worktree.sh <name>  -> creates /tmp/wt/<name> (scratch worktree of /repo HEAD with the
# git-ignored compiled kernel copied in, so the test-suite imports there).  The kernel files are taken from
# $KERNEL_FROM (default /repo/src/rsatoolbox/cengine); pass a clean copy while a kernel patch is applied to /repo.
set -e
d=/tmp/wt/$1
src=${KERNEL_FROM:-/repo/src/rsatoolbox/cengine}
mkdir -p /tmp/wt
git -C /repo worktree add --detach -f "$d" HEAD >/dev/null 2>&1
cp $src/similarity.c $src/similarity*.so "$d/src/rsatoolbox/cengine/"
mkdir -p "$d/deliver"
echo "$d"
