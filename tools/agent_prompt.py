#!/usr/bin/env python3
"""print the sub-agent prompt for a property id and worktree name (the prompt contains only the
property text and the worktree; nothing from /verif)"""
import json, sys
pid, name = sys.argv[1], sys.argv[2]
letters = (sys.argv[3] if len(sys.argv) > 3 else 'a,b').split(',')
hint = sys.argv[4] if len(sys.argv) > 4 else ''
p = [json.loads(l) for l in open('/verif/properties.jsonl') if json.loads(l)['id'] == pid][0]
d = f'/tmp/wt/{name}'
print(f"""You are working on the Python library rsatoolbox (Representational Similarity Analysis) in a scratch git worktree at {d}. Work ONLY inside {d}. Do not read or touch /repo or /verif.

How to run things (no network, nothing can be installed):
- Python: `cd {d} && PYTHONPATH={d}/src /venv/bin/python your_script.py`  (check `rsatoolbox.__file__` starts with {d})
- Test suite: `cd {d} && PYTHONPATH={d}/src /venv/bin/python -m pytest -q -p no:cacheprovider --timeout=900 tests 2>&1 | tail -25`  (takes ~1 min; on the unmodified tree 340 tests pass and exactly 12 fail for pre-existing reasons, all in tests/test_demo.py, tests/test_vis.py, tests/test_vis_plot_rdm.py -- ignore those 12).
- The compiled extension src/rsatoolbox/cengine/similarity*.so is prebuilt; Cython is NOT available, so do not edit similarity.pyx (it cannot be recompiled). Edit only .py files under {d}/src/rsatoolbox.

This is the semantic property of the library you should think about:

TITLE: {p['title']}
STATEMENT: {p['statement']}
SCOPE: {p['quantifier']['text']}
MECHANISMS THE PROPERTY RESTS ON (from the property record): {'; '.join(m['name'] + ' [' + m['where'] + ']' for m in p['anchors']['mechanism'])}

YOUR TASK (this is mutation testing of a verification harness that you cannot see): produce TWO different, independent, small, realistic changes to the library source (the kind of plausible bug a maintainer could introduce in a refactor or "optimisation") each of which BREAKS the property above, while the package still imports and the existing test suite still passes exactly as before (same 340 passing tests). Each change must need something specific to manifest -- an unusual but legitimate input (e.g. particular sizes, label types, duplicates, ties, NaNs, unbalanced designs, list-vs-array arguments), a particular option/configuration, a multi-step sequence of operations, a particular random outcome, or two cooperating code sites that each look fine alone -- NOT something that every ordinary call would expose at once. Prefer subtle semantic slips (wrong index set, off-by-one in a rarely taken branch, wrong normalisation in one branch, stale variable reuse, wrong pairing/order, lost descriptor, missing copy) over crashes. The two changes should touch different mechanisms; prefer the less obvious mechanisms and clauses of the statement (later clauses, rarely used options, helper functions, secondary entry points) over the first one that comes to mind. {hint}

For EACH change X in {{{', '.join(letters)}}}:
1. Apply it, run the full test suite, confirm the same tests pass as on the unmodified tree.
2. Write a self-contained demonstration script {d}/deliver/demo_X.py that uses only the public API, exits with status 0 on the UNMODIFIED tree and exits non-zero (failed assert with a clear message) WITH the change applied. Verify both (use `git diff -- src > file; git checkout -- src; ...; git apply file`; do NOT use `git stash`: the stash is shared with other worktrees of this repository).
3. Save the change as {d}/deliver/patch_X.diff using `git diff -- src > {d}/deliver/patch_X.diff` (paths relative to the repo root, so that `git apply patch_X.diff` works in a clean checkout).
4. Revert the source (`git checkout -- src`) before starting the next change, so the two patches are independent.

Finally write {d}/deliver/README.md with, per change: what was changed (file/function), which clause of the property it breaks, and exactly what is needed for it to manifest. Leave the worktree source clean (`git status` shows only the untracked deliver/ directory). In your final answer, summarise the two changes in a few lines each.""")
