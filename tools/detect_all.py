#!/usr/bin/env python3
"""For every seeded change: apply it to /repo, run the property's quick check (thorough if quick misses), undo it,
and write seeded/<id>/meta.json (property, what it needs to manifest, confirmation, which check caught it).
usage: detect_all.py [id ...]      (default: all)"""
import glob
import json
import os
import re
import shutil
import subprocess
import sys

V = '/verif'
KERNEL_C = '/repo/src/rsatoolbox/cengine/similarity.c'


def needs_text(sid):
    path = f'{V}/seeded/{sid}/AGENT_README.md'
    if not os.path.exists(path):
        return ''
    lines = open(path).read().splitlines()
    hits = [i for i, ln in enumerate(lines) if re.search(r'needed to manifest', ln, re.I)]
    # the README is shared by the changes one agent delivered: position of this id among them
    body = open(path).read()
    group = sorted(os.path.basename(os.path.dirname(q)) for q in glob.glob(f'{V}/seeded/{sid.split("-")[0]}-*/AGENT_README.md')
                   if open(q).read() == body)
    k = group.index(sid)
    if k >= len(hits):
        return ''
    out = []
    for ln in lines[hits[k]:]:
        if out and (not ln.strip() or ln.startswith('#') or ln.lstrip().startswith('* ')):
            break
        out.append(ln.strip())
    return re.sub(r'\s+', ' ', ' '.join(out)).replace('**', '').lstrip('* ').strip()


def run_check(prop, tier):
    res = subprocess.run(['python3', f'{V}/run_check.py', prop, '--tier', tier, '--no-evidence'], capture_output=True,
                         text=True, cwd=V)
    vio = [ln for ln in res.stdout.splitlines() if ln.startswith('VIOLATION')]
    checks = sorted({m.group(1) for ln in vio for m in [re.search(r'check=(\S+)', ln)] if m})
    return {'tier': tier, 'rc': res.returncode, 'violation_lines': len(vio), 'violating_checks': checks,
            'first': vio[0][:400] if vio else None}


def main():
    ids = sys.argv[1:] or sorted(os.path.basename(p) for p in glob.glob(f'{V}/seeded/C*'))
    st = subprocess.run(['git', '-C', '/repo', 'status', '--porcelain', '--untracked-files=no'], capture_output=True,
                        text=True).stdout
    assert not st.strip(), '/repo is dirty: ' + st
    for sid in ids:
        d = f'{V}/seeded/{sid}'
        prop = sid.split('-')[0]
        patch = open(f'{d}/patch.diff').read()
        files = sorted(set(re.findall(r'^\+\+\+ b/(\S+)', patch, re.M)))
        kernel = any(f.endswith('similarity.c') for f in files)
        meta = {'id': sid, 'property': prop, 'files': files, 'needs_to_manifest': needs_text(sid),
                'origin': 'fresh sub-agent given only the property text and a scratch worktree'
                          + ('; hand-ported to the tree after fix commits (original kept as patch_original_by_agent.diff)'
                             if os.path.exists(f'{d}/patch_original_by_agent.diff') else '')}
        if os.path.exists(f'{d}/confirm.json'):
            c = json.load(open(f'{d}/confirm.json'))
            meta['confirmation'] = {'how': 'tools/confirm_seeded.py in a scratch worktree /tmp/wt/<prop>: demo.py without the '
                                    'change, git apply, demo.py with the change, full test-suite against BASELINE stable_pass',
                                    'repo_head': c.get('repo_head'), 'demo_clean_rc': c.get('demo_clean_rc'),
                                    'demo_patched_rc': c.get('demo_patched_rc'), 'suite_passed': c.get('suite_passed'),
                                    'confirmed': c.get('confirmed')}
        if kernel:
            shutil.copy(KERNEL_C, '/root/similarity.c.bak')
            ap = subprocess.run(['patch', '-p1', '-i', f'{d}/patch.diff'], cwd='/repo', capture_output=True, text=True)
        else:
            ap = subprocess.run(['git', '-C', '/repo', 'apply', f'{d}/patch.diff'], capture_output=True, text=True)
        try:
            if ap.returncode:
                meta['detection'] = {'applied': False, 'error': (ap.stderr or ap.stdout)[-300:]}
            else:
                runs = [run_check(prop, 'quick')]
                if runs[0]['rc'] != 1:
                    runs.append(run_check(prop, 'thorough'))
                meta['detection'] = {'applied': True, 'how': f'applied to /repo, ran run_check.py {prop}, undone straight '
                                     'afterwards', 'runs': runs, 'caught': any(r['rc'] == 1 for r in runs),
                                     'caught_by_tier': next((r['tier'] for r in runs if r['rc'] == 1), None)}
        finally:
            if kernel:
                shutil.copy('/root/similarity.c.bak', KERNEL_C)
            subprocess.run(['git', '-C', '/repo', 'checkout', '--', '.'], check=True)
        notes = json.load(open(f'{V}/seeded/NOTES.json'))
        if sid in notes:
            meta['status'] = notes[sid]['status']
            meta['note'] = notes[sid]['note']
        elif meta.get('confirmation', {}).get('confirmed') is False:
            meta['note'] = 'NOT CONFIRMED on the current tree and not yet triaged'
        json.dump(meta, open(f'{d}/meta.json', 'w'), indent=1)
        det = meta['detection']
        print(sid, 'caught' if det.get('caught') else 'MISSED', det.get('caught_by_tier'),
              (det.get('runs') or [{}])[0].get('violating_checks'), flush=True)


if __name__ == '__main__':
    main()
