#!/usr/bin/env python3
"""MANIFEST.setup_cmd: offline set-up of the framework after a fresh restore.
Installs icontract + deal from the offline wheelhouse into /verif/.deps (git-ignored) and
checks that the tree under test imports from /repo/src under /venv/bin/python."""
import os
import subprocess
import sys
sys.path.insert(0, os.path.dirname(os.path.dirname(os.path.abspath(__file__))))
from vlib import env

ok = env.ensure_deps(verbose=True)
print('deps:', 'ok' if ok else 'MISSING (checks fall back to hand-written invariants)')
res = subprocess.run([env.PY, '-c', 'import rsatoolbox, icontract, deal; print(rsatoolbox.__file__)'],
                     env=env.child_env(), capture_output=True, text=True)
print(res.stdout.strip(), res.stderr.strip()[-500:])
os.makedirs(os.path.join(env.VERIF, 'evidence'), exist_ok=True)
sys.exit(0 if res.returncode == 0 else 1)
