#!/usr/bin/env python3
"""Apply a seeded change to /repo, run the given checks (quick by default), always undo it.
usage: try_seeded.py <seeded-id> <PROP>[,<PROP>...] [quick|thorough]"""
import subprocess, sys, os
sid, props = sys.argv[1], sys.argv[2].split(',')
tier = sys.argv[3] if len(sys.argv) > 3 else 'quick'
st = subprocess.run(['git', '-C', '/repo', 'status', '--porcelain', '--untracked-files=no'], capture_output=True, text=True).stdout
assert not st.strip(), '/repo is dirty: ' + st
r = subprocess.run(['git', '-C', '/repo', 'apply', f'/verif/seeded/{sid}/patch.diff'], capture_output=True, text=True)
if r.returncode:
    print('APPLY FAILED', r.stderr); sys.exit(3)
try:
    for p in props:
        res = subprocess.run(['python3', '/verif/run_check.py', p, '--tier', tier, '--no-evidence'], capture_output=True, text=True, cwd='/verif')
        lines = [l for l in res.stdout.splitlines() if l.startswith(('VIOLATION', 'INCONCLUSIVE', 'KNOWN', p))]
        print(f'== {sid} vs {p} {tier}: rc={res.returncode}')
        for l in lines[:6] + lines[-1:]:
            print('   ', l[:330])
finally:
    subprocess.run(['git', '-C', '/repo', 'checkout', '--', '.'], check=True)
