#!/bin/sh
# usage: sweep.sh <tier> <seed> [<seed> ...]   -- run every check for the given seeds (no evidence written), print non-held results
tier=$1; shift
for seed in "$@"; do
  for p in C01 C02 C03 C04 C05 C06 C07 C08 C09 C10 C11 C12 C13 C14 C15 C16 C17 C18 C19 C20; do
    echo "$p $seed"
  done
done | xargs -P ${SWEEP_JOBS:-6} -L 1 sh -c 'out=$(python3 /verif/run_check.py $0 --tier '"$tier"' --seed $1 --no-evidence 2>&1); rc=$?; echo "$0 seed=$1 rc=$rc $(echo "$out" | tail -1 | cut -c1-160)"; if [ $rc -ne 0 ]; then echo "$out" | grep -v KNOWN | head -5 | cut -c1-400; fi'
