#!/usr/bin/env python3
"""Regenerate DESIGN.md section 8.5 (seeded changes x detecting checks) from seeded/*/meta.json."""
import glob, json, os, re
V = '/verif'
rows = []
for d in sorted(glob.glob(f'{V}/seeded/C*')):
    mp = os.path.join(d, 'meta.json')
    if not os.path.exists(mp):
        rows.append((os.path.basename(d), '-', 'no meta.json yet', '-', '-'))
        continue
    m = json.load(open(mp))
    det = m.get('detection', {})
    conf = m.get('confirmation', {})
    runs = det.get('runs', [])
    caught = det.get('caught')
    checks = ', '.join((runs[-1] if runs else {}).get('violating_checks', [])[:4]) if caught else ''
    needs = re.sub(r'\s+', ' ', m.get('needs_to_manifest', ''))[:150]
    status = ('caught (' + str(det.get('caught_by_tier')) + ')') if caught else ('NOT APPLIED' if det.get('applied') is False else 'missed')
    if m.get('note'):
        status += ' – ' + m['note']
    rows.append((m['id'], 'yes' if conf.get('confirmed') else 'no', needs, status, checks))
tab = ['| id | confirmed | needs to manifest (agent\'s words, truncated) | result | violating sub-checks |', '|---|---|---|---|---|']
tab += ['| ' + ' | '.join(str(c).replace('|', '/') for c in r) + ' |' for r in rows]
notes = json.load(open(f'{V}/seeded/NOTES.json'))
n_inv = sum(1 for r in rows if notes.get(r[0], {}).get('status') == 'invalid')
n_und = sum(1 for r in rows if notes.get(r[0], {}).get('status') == 'undecided')
n_c = sum(1 for r in rows if r[3].startswith('caught'))
head = (f'{len(rows)} seeded changes; {n_inv} no longer break the property on the current tree (a later fix: commit closed '
        f'their route), {n_und} are not decidable from the property text; of the remaining {len(rows) - n_inv - n_und}, '
        f'{n_c} are caught by the property\'s own check '
        f'({sum(1 for r in rows if r[3].startswith("caught (quick")) } already by the quick tier).\n\n')
s = open(f'{V}/DESIGN.md').read()
a, b = '<!-- SEEDED-MATRIX-BEGIN -->', '<!-- SEEDED-MATRIX-END -->'
block = a + '\n' + head + '\n'.join(tab) + '\n' + b
if a in s:
    s = s[:s.index(a)] + block + s[s.index(b) + len(b):]
else:
    s += '\n### 8.5 Seeded changes and the checks that catch them\n\n' + block + '\n'
open(f'{V}/DESIGN.md', 'w').write(s)
print(head)
