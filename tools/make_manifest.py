#!/usr/bin/env python3
"""Regenerate MANIFEST.json from the property modules (run under /venv via run_check's env)."""
import importlib
import json
import os
import sys
HERE = os.path.dirname(os.path.dirname(os.path.abspath(__file__)))
sys.path.insert(0, HERE)
os.environ.setdefault('MPLBACKEND', 'Agg')
from vlib import env
sys.path[:0] = [env.src_root(), env.DEPS]

props = [json.loads(l) for l in open(os.path.join(HERE, 'properties.jsonl'))]
checks, na = [], []
for p in props:
    pid = p['id']
    path = os.path.join(HERE, 'props', pid.lower() + '.py')
    if not os.path.exists(path):
        na.append({'property_id': pid, 'reason': 'check not built yet (work in progress; '
                   'designed in DESIGN.md section 4)'})
        continue
    src = open(path).read()
    ns = {}
    # read the declarative constants without importing rsatoolbox
    import ast
    tree = ast.parse(src)
    for node in tree.body:
        if isinstance(node, ast.Assign) and len(node.targets) == 1 and isinstance(node.targets[0], ast.Name):
            name = node.targets[0].id
            if name in ('LEVEL', 'TECHNIQUE', 'LEVEL_TEXT', 'LEVEL_NOTE', 'DESIGN_REF', 'NOT_APPLICABLE'):
                ns[name] = ast.literal_eval(node.value)
    if ns.get('NOT_APPLICABLE'):
        na.append({'property_id': pid, 'reason': ns['NOT_APPLICABLE']})
        continue
    checks.append({
        'property_id': pid,
        'quick_cmd': f'python3 run_check.py {pid} --tier quick',
        'thorough_cmd': f'python3 run_check.py {pid} --tier thorough',
        'evidence_file': f'/verif/evidence/{pid}.json',
        'replay_cmd_template': 'python3 run_check.py ' + pid + ' --replay {path}',
        'engine': 'runtime-monitor',
        'level_claimed': {'category': ns.get('LEVEL', 'exploration'),
                          'text': ns.get('LEVEL_TEXT', ''),
                          'design_ref': ns.get('DESIGN_REF', f'DESIGN.md section 4 ({pid})')},
        'level_note': ns.get('LEVEL_NOTE', ''),
        'technique': ns.get('TECHNIQUE', ''),
    })
man = {
    'version': 1,
    'setup_cmd': 'python3 tools/setup_env.py',
    'hooks': {
        'guard': 'RSATOOLBOX_VERIF',
        'enable': 'checks export RSATOOLBOX_VERIF=1 in the child environment; no guarded source hook '
                  'exists in /repo (all observation points are module attributes, numpy global RNG '
                  'functions, class invariants installed from the harness), so the variable is inert',
        'baseline_off_cmd': 'cd /repo && env -u RSATOOLBOX_VERIF /venv/bin/python -m pytest -ra -q '
                            '-p no:cacheprovider --timeout=900 --continue-on-collection-errors '
                            '--junitxml=/tmp/rsatoolbox-baseline.junit.xml',
        'source_commits': [],
        'add_only': True,
    },
    'engines': [{'name': 'runtime-monitor', 'path': '/verif/run_check.py',
                 'serves_properties': [c['property_id'] for c in checks],
                 'kind_free_text': 'runtime monitoring: real rsatoolbox code from /repo/src executed under '
                 'seeded hostile workloads; module-boundary wrappers, numpy global-RNG tap, icontract class '
                 'invariants, sys.monitoring reach counters, read-only/fingerprint mutation sanitizer, '
                 'clang ASan+UBSan build of the compiled kernel; oracles are independent reference models'}],
    'checks': checks,
    'not_applicable': na,
    'notes': 'exit 0 held / exit 1 + VIOLATION line / exit 2 + INCONCLUSIVE line (a deciding monitor was '
             'never reached; never folded into held). Known findings: /verif/known_findings.json.',
}
with open(os.path.join(HERE, 'MANIFEST.json'), 'w') as f:
    json.dump(man, f, indent=1)
print('checks:', [c['property_id'] for c in checks], 'not_applicable:', [n['property_id'] for n in na])
