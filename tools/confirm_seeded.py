#!/usr/bin/env python3
"""Confirm a seeded change in a scratch worktree (outside /repo and /verif):
 demo passes without the patch, fails with it, and the repository's test-suite still passes
 (all 340 BASELINE stable tests). Writes /verif/seeded/<id>/confirm.json. Removes the worktree."""
import json, os, subprocess, sys, shutil, xml.etree.ElementTree as ET
sid = sys.argv[1]
d = f'/verif/seeded/{sid}'
wt = f'/tmp/wt/{sid.split("-")[0].lower()}'   # same path the change was written in (some demos assert it)
subprocess.run(['git', '-C', '/repo', 'worktree', 'remove', '--force', wt], capture_output=True)
subprocess.run(['/verif/tools/mk_worktree.sh', sid.split('-')[0].lower()], check=True, capture_output=True)
env = dict(os.environ, PYTHONPATH=f'{wt}/src', MPLBACKEND='Agg', PYTHONDONTWRITEBYTECODE='1')
out = {'id': sid, 'repo_head': subprocess.run(['git', '-C', '/repo', 'rev-parse', 'HEAD'], capture_output=True, text=True).stdout.strip()}
try:
    def demo():
        r = subprocess.run(['/venv/bin/python', f'{d}/demo.py'], cwd=wt, env=env, capture_output=True, text=True, timeout=900)
        return r.returncode, (r.stdout + r.stderr)[-800:]
    out['demo_clean_rc'], out['demo_clean_tail'] = demo()
    ap = subprocess.run(['git', '-C', wt, 'apply', f'{d}/patch.diff'], capture_output=True, text=True)
    out['apply_rc'] = ap.returncode
    out['apply_err'] = ap.stderr[-500:]
    if ap.returncode == 0 and 'similarity.c' in open(f'{d}/patch.diff').read():
        # the compiled kernel's generated C is a git-ignored build product: rebuild the extension from it
        ce = f'{wt}/src/rsatoolbox/cengine'
        cc = subprocess.run(['gcc', '-O2', '-shared', '-fPIC', '-w', '-I/root/.pyenv/versions/3.12.1/include/python3.12',
                             '-I/venv/lib/python3.12/site-packages/numpy/_core/include', f'{ce}/similarity.c',
                             '-o', f'{ce}/similarity.cpython-312-x86_64-linux-gnu.so'], capture_output=True, text=True)
        out['rebuild_rc'] = cc.returncode
    if ap.returncode == 0:
        out['demo_patched_rc'], out['demo_patched_tail'] = demo()
        if '--no-suite' not in sys.argv:
            junit = f'{wt}/junit.xml'
            subprocess.run(['/venv/bin/python', '-m', 'pytest', '-q', '-p', 'no:cacheprovider', '--timeout=900',
                            '--continue-on-collection-errors', f'--junitxml={junit}', 'tests'],
                           cwd=wt, env=env, capture_output=True, text=True, timeout=3000)
            base = set(json.load(open('/root/.vp/BASELINE.json'))['stable_pass'])
            passed = set()
            for tc in ET.parse(junit).getroot().iter('testcase'):
                if not any(ch.tag in ('failure', 'error', 'skipped') for ch in tc):
                    passed.add(f"{tc.get('classname')}::{tc.get('name')}")
            out['suite_passed'] = len(passed & base)
            out['suite_missing'] = sorted(base - passed)[:10]
    out['confirmed'] = (out.get('demo_clean_rc') == 0 and out.get('apply_rc') == 0 and
                        out.get('demo_patched_rc', 0) != 0 and
                        (out.get('suite_passed', 340) == 340))
finally:
    subprocess.run(['git', '-C', '/repo', 'worktree', 'remove', '--force', wt], capture_output=True)
    shutil.rmtree(wt, ignore_errors=True)
json.dump(out, open(f'{d}/confirm.json', 'w'), indent=1)
print(sid, 'confirmed' if out['confirmed'] else 'NOT CONFIRMED', {k: out[k] for k in out if k.endswith('_rc') or k.startswith('suite')})
