#!/bin/sh
# confirm every seeded change in scratch worktrees (3 passes so that two changes of one property never share a worktree)
cd /verif
for letter in a b c; do
  ls seeded | grep -- "-$letter\$" | xargs -P 5 -I{} python3 tools/confirm_seeded.py {} 
done
