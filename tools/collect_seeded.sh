#!/bin/sh
# usage: collect_seeded.sh <wtname> <PROP>  : copy deliverables into /verif/seeded/<PROP>-<x>/ and drop the worktree
set -e
wt=/tmp/wt/$1; P=$2
for x in a b c d e f g h i j k l; do
  if [ -f "$wt/deliver/patch_$x.diff" ]; then
    d=/verif/seeded/$P-$x; mkdir -p "$d"
    cp "$wt/deliver/patch_$x.diff" "$d/patch.diff"
    cp "$wt/deliver/demo_$x.py" "$d/demo.py" 2>/dev/null || true
    cp "$wt/deliver/README.md" "$d/AGENT_README.md" 2>/dev/null || true
  fi
done
git -C /repo worktree remove --force "$wt"
ls /verif/seeded
