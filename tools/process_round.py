#!/usr/bin/env python3
"""Collect and confirm one round of seeded changes.
usage: process_round.py <letters> [--c15 <letters>]     e.g. process_round.py g,h --c15 h,i
For every property CNN: copy /tmp/wt/cNN/deliver/{patch_X.diff, demo_X.py, README.md} to /verif/seeded/CNN-X/ for the
expected letters, remove the worktree ONLY when every expected file was copied, then confirm each change with
tools/confirm_seeded.py (4 properties in parallel, the changes of one property one after the other because they share
the scratch worktree path)."""
import concurrent.futures
import os
import shutil
import subprocess
import sys

V = '/verif'
letters = sys.argv[1].split(',')
c15 = sys.argv[sys.argv.index('--c15') + 1].split(',') if '--c15' in sys.argv else letters
jobs = {}
for n in range(1, 21):
    prop = f'C{n:02d}'
    wt = f'/tmp/wt/c{n:02d}'
    want = c15 if prop == 'C15' else letters
    got = []
    for x in want:
        src = f'{wt}/deliver/patch_{x}.diff'
        if os.path.exists(src) and os.path.getsize(src) > 0 and os.path.exists(f'{wt}/deliver/demo_{x}.py'):
            d = f'{V}/seeded/{prop}-{x}'
            os.makedirs(d, exist_ok=True)
            shutil.copy(src, f'{d}/patch.diff')
            shutil.copy(f'{wt}/deliver/demo_{x}.py', f'{d}/demo.py')
            if os.path.exists(f'{wt}/deliver/README.md'):
                shutil.copy(f'{wt}/deliver/README.md', f'{d}/AGENT_README.md')
            got.append(x)
    if got == want:
        subprocess.run(['git', '-C', '/repo', 'worktree', 'remove', '--force', wt], capture_output=True)
        shutil.rmtree(wt, ignore_errors=True)
    else:
        print(f'{prop}: expected {want}, found {got} -- worktree {wt} kept', flush=True)
    jobs[prop] = [f'{prop}-{x}' for x in got]


def confirm(ids):
    out = []
    for sid in ids:
        r = subprocess.run(['python3', f'{V}/tools/confirm_seeded.py', sid], capture_output=True, text=True)
        line = [ln for ln in r.stdout.splitlines() if ln.startswith(sid)]
        if not line:      # e.g. a `git worktree add` race: try once more
            r = subprocess.run(['python3', f'{V}/tools/confirm_seeded.py', sid], capture_output=True, text=True)
            line = [ln for ln in r.stdout.splitlines() if ln.startswith(sid)]
        out.append(line[0] if line else f'{sid} CONFIRM TOOL FAILED: {r.stderr[-200:]}')
    return out


with concurrent.futures.ThreadPoolExecutor(max_workers=4) as ex:
    for res in ex.map(confirm, [v for v in jobs.values() if v]):
        for ln in res:
            print(ln, flush=True)
