"""Reference models written from the property statements.  They share no code with
rsatoolbox: plain loops, dicts keyed by labels, numpy/scipy textbook calls."""
import itertools
import math

import numpy as np
import scipy.stats


def _key(lbl):
    """hashable python-native form of a label"""
    if isinstance(lbl, np.generic):
        lbl = lbl.item()
    return lbl


def cond_means(meas, labels):
    """dict label -> mean pattern (float64), in first-appearance order"""
    meas = np.asarray(meas)
    groups = {}
    for i, lbl in enumerate(labels):
        groups.setdefault(_key(lbl), []).append(i)
    return {k: np.asarray(meas[rows], dtype=float).mean(axis=0) for k, rows in groups.items()}


def pair_value(method, xa, xb, prec=None, prior_lambda=1.0, prior_weight=0.1):
    p = xa.shape[0]
    if method == 'euclidean':
        d = xa - xb
        return float(d @ d) / p
    if method == 'mahalanobis':
        d = xa - xb
        return float(d @ prec @ d) / p
    if method == 'correlation':
        a = xa - xa.mean()
        b = xb - xb.mean()
        den = float(a @ a) * float(b @ b)
        if den <= 1e-24:
            return float('nan')  # definition undefined (zero-variance pattern)
        return 1.0 - float(a @ b) / math.sqrt(den)
    if method == 'poisson':
        la = (xa + prior_lambda * prior_weight) / (1 + prior_weight)
        lb = (xb + prior_lambda * prior_weight) / (1 + prior_weight)
        return float(np.sum((la - lb) * (np.log(la) - np.log(lb)))) / p
    raise ValueError(method)


def rdm_pairs(meas, labels, method, prec=None, remove_mean=False, prior_lambda=1.0,
              prior_weight=0.1):
    """dict frozenset({la, lb}) -> value for every unordered pair of distinct labels"""
    means = cond_means(meas, labels)
    if remove_mean and method in ('euclidean', 'mahalanobis'):
        means = {k: v - v.mean() for k, v in means.items()}
    out = {}
    for la, lb in itertools.combinations(list(means.keys()), 2):
        out[frozenset((la, lb))] = pair_value(method, means[la], means[lb], prec,
                                              prior_lambda, prior_weight)
    return out


def crossval_pairs(meas, labels, folds, method='crossnobis', prec=None, prec_per_fold=None,
                   remove_mean=False, prior_lambda=1.0, prior_weight=0.1):
    """average over ordered pairs of distinct folds (m, n) of the bilinear form on
    fold-wise condition means.  prec_per_fold: dict fold -> precision of that fold."""
    meas = np.asarray(meas)
    fold_keys = []
    for f in folds:
        if _key(f) not in fold_keys:
            fold_keys.append(_key(f))
    fm = {}
    for f in fold_keys:
        rows = [i for i, g in enumerate(folds) if _key(g) == f]
        fm[f] = cond_means(meas[rows], [labels[i] for i in rows])
        if remove_mean and method == 'crossnobis':
            fm[f] = {k: v - v.mean() for k, v in fm[f].items()}
    conds = list(fm[fold_keys[0]].keys())
    p = meas.shape[1]
    out = {}
    for la, lb in itertools.combinations(conds, 2):
        acc, cnt = 0.0, 0
        for m in fold_keys:
            for n in fold_keys:
                if m == n:
                    continue
                if method == 'crossnobis':
                    if prec_per_fold is not None:
                        cov = (np.linalg.inv(prec_per_fold[m]) + np.linalg.inv(prec_per_fold[n])) / 2
                        pr = np.linalg.inv(cov)
                    elif prec is not None:
                        pr = prec
                    else:
                        pr = np.eye(p)
                    dm = fm[m][la] - fm[m][lb]
                    dn = fm[n][la] - fm[n][lb]
                    acc += float(dm @ pr @ dn) / p
                else:  # poisson_cv
                    def lam(x):
                        return (x + prior_lambda * prior_weight) / (1 + prior_weight)
                    dm = lam(fm[m][la]) - lam(fm[m][lb])
                    dn = np.log(lam(fm[n][la])) - np.log(lam(fm[n][lb]))
                    acc += float(dm @ dn) / p
                cnt += 1
        out[frozenset((la, lb))] = acc / cnt
    return out


def rdms_as_pairs(rdms, desc, i_rdm=0):
    """read an RDMs object through its returned labels: dict frozenset -> value.
    Raises ValueError when labels are not distinct."""
    lab = [_key(v) for v in rdms.pattern_descriptors[desc]]
    if len(set(lab)) != len(lab):
        raise ValueError(f'labels not distinct: {lab}')
    mat = rdms.get_matrices()[i_rdm]
    out = {}
    n = len(lab)
    for i in range(n):
        for j in range(i + 1, n):
            out[frozenset((lab[i], lab[j]))] = (float(mat[i, j]), float(mat[j, i]))
    return lab, out


# ---------------------------------------------------------------------------
# RDM comparison measures
# ---------------------------------------------------------------------------
def cosine(x, y):
    return float(x @ y) / math.sqrt(float(x @ x) * float(y @ y))


def pearson(x, y):
    return cosine(x - x.mean(), y - y.mean())


def spearman(x, y):
    return pearson(scipy.stats.rankdata(x), scipy.stats.rankdata(y))


def tau_a(x, y):
    n = len(x)
    s = 0
    for i in range(n):
        for j in range(i + 1, n):
            s += np.sign(x[i] - x[j]) * np.sign(y[i] - y[j])
    return float(s) / (n * (n - 1) / 2)


def tau_b(x, y):
    return float(scipy.stats.kendalltau(x, y).statistic)


def rho_a_closed(x, y):
    """expected Spearman under random tie breaking (Schuett et al. 2023):
    rho_a = 12 * sum(rx*ry) / (n^3 - n) - 3 (n+1)/(n-1) with tie-averaged ranks"""
    n = len(x)
    rx = scipy.stats.rankdata(x)
    ry = scipy.stats.rankdata(y)
    return float(12 * (rx @ ry) / (n ** 3 - n) - 3 * (n + 1) / (n - 1))


def _tie_breakings(x):
    """all rank vectors (1..n) consistent with x where ties are broken in every possible way"""
    order = np.argsort(x, kind='stable')
    xs = np.asarray(x)[order]
    groups = []
    start = 0
    for i in range(1, len(xs) + 1):
        if i == len(xs) or xs[i] != xs[start]:
            groups.append(list(order[start:i]))
            start = i
    def rec(gi, base):
        if gi == len(groups):
            yield {}
            return
        g = groups[gi]
        for perm in itertools.permutations(range(len(g))):
            assign = {g[k]: base + perm[k] + 1 for k in range(len(g))}
            for rest in rec(gi + 1, base + len(g)):
                d = dict(assign)
                d.update(rest)
                yield d
    for d in rec(0, 0):
        yield np.array([d[i] for i in range(len(x))], dtype=float)


def n_tie_breakings(x):
    _, counts = np.unique(x, return_counts=True)
    out = 1
    for c in counts:
        out *= math.factorial(int(c))
    return out


def rho_a_enum(x, y):
    """expected Spearman over all tie-breakings of x and of y (exhaustive)"""
    rxs = list(_tie_breakings(x))
    rys = list(_tie_breakings(y))
    acc = 0.0
    for rx in rxs:
        for ry in rys:
            acc += pearson(rx, ry)
    return acc / (len(rxs) * len(rys))


def pair_contrast(n_cond):
    """(n_pair x n_cond) matrix with +1/-1 for each pair i<j in upper-triangular row-major order"""
    rows = []
    for i in range(n_cond):
        for j in range(i + 1, n_cond):
            r = np.zeros(n_cond)
            r[i], r[j] = 1, -1
            rows.append(r)
    return np.array(rows)


def v_matrix(n_cond, sigma_k=None):
    """V = (C Sigma C')^2 elementwise: covariance of squared-distance estimates"""
    c = pair_contrast(n_cond)
    if sigma_k is None:
        sig = np.eye(n_cond)
    else:
        sigma_k = np.asarray(sigma_k, dtype=float)
        sig = np.diag(sigma_k) if sigma_k.ndim == 1 else sigma_k
    xi = c @ sig @ c.T
    return xi * xi


def whitened_cosine(x, y, v):
    vi_x = np.linalg.solve(v, x)
    vi_y = np.linalg.solve(v, y)
    return float(x @ vi_y) / math.sqrt(float(x @ vi_x) * float(y @ vi_y))


def whitened_corr(x, y, v):
    """correlation version: remove the component along the all-ones vector in the V^-1 metric?
    rsatoolbox documents corr_cov as the cosine_cov of mean-centred vectors."""
    return whitened_cosine(x - x.mean(), y - y.mean(), v)


def subsample_vector(vec, n_cond, idx):
    """vector form of the RDM restricted to conditions idx (with multiplicity); pairs of two
    copies of one condition are NaN"""
    m = np.zeros((n_cond, n_cond))
    m[np.triu_indices(n_cond, 1)] = vec
    m = m + m.T
    np.fill_diagonal(m, np.nan)
    idx = np.asarray(idx)
    sub = m[np.ix_(idx, idx)]
    return sub[np.triu_indices(len(idx), 1)]


def square(vec, n_cond, diag=0.0):
    m = np.zeros((n_cond, n_cond))
    m[np.triu_indices(n_cond, 1)] = vec
    m = m + m.T
    np.fill_diagonal(m, diag)
    return m
