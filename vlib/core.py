"""Check context, three-valued verdicts, known-findings classifier, evidence writer.

A property module exposes
    LEVEL, TECHNIQUE, RULE, ASSUMPTIONS, REQUIRED (list of counter names that must be >0),
    REACH (list of rsatoolbox function qualnames that must have been entered)
    run(ctx)
and talks to the framework only through Ctx:
    ctx.case(check, sig, sample=None, nontrivial=True)   one oracle evaluation
    ctx.fail(check, sig, msg, data=None)                 one violation (witness in data)
    ctx.count(name, k=1)                                 free counters (events observed)
"""
import json
import math
import os
import sys
import time
import traceback

import numpy as np

from . import env

EVID_DIR = os.path.join(env.VERIF, 'evidence')
REPLAY_DIR = os.path.join(EVID_DIR, 'replays')
KNOWN_FILE = os.path.join(env.VERIF, 'known_findings.json')

MAX_REPLAYS_PER_SIG = 2
CALL_TIMEOUT_S = int(os.environ.get("VERIF_CALL_TIMEOUT_S", "90"))   # generous: 30 s fired 47 times in one C13 thorough run on a machine loaded threefold


class CallTimeout(Exception):
    pass
MAX_SAMPLES = 6


def jsonable(x, depth=0):
    """best-effort conversion of witnesses to JSON"""
    if depth > 8:
        return repr(x)[:200]
    if x is None or isinstance(x, (bool, int, str)):
        return x
    if isinstance(x, float):
        if math.isnan(x):
            return 'nan'
        if math.isinf(x):
            return 'inf' if x > 0 else '-inf'
        return x
    if isinstance(x, np.generic):
        return jsonable(x.item(), depth + 1)
    if isinstance(x, np.ndarray):
        if x.size > 4000:
            return {'__ndarray__': 'truncated', 'shape': list(x.shape), 'dtype': str(x.dtype),
                    'head': jsonable(x.ravel()[:50].tolist(), depth + 1)}
        return {'__ndarray__': jsonable(x.tolist(), depth + 1), 'dtype': str(x.dtype),
                'shape': list(x.shape)}
    if isinstance(x, dict):
        return {str(k): jsonable(v, depth + 1) for k, v in x.items()}
    if isinstance(x, (list, tuple, set, frozenset)):
        return [jsonable(v, depth + 1) for v in x]
    if isinstance(x, bytes):
        return x.decode('latin1')
    return repr(x)[:500]


def sig_key(check, sig):
    return check + '|' + json.dumps(jsonable(sig), sort_keys=True)


def close(a, b, rtol=1e-9, atol=1e-11, equal_nan=True):
    """elementwise |a-b| <= atol + rtol*max(|a|,|b|); shapes must agree"""
    a = np.asarray(a, dtype=float)
    b = np.asarray(b, dtype=float)
    if a.shape != b.shape:
        return False
    na, nb = np.isnan(a), np.isnan(b)
    if equal_nan:
        if not np.array_equal(na, nb):
            return False
    elif na.any() or nb.any():
        return False
    ok = ~na
    if not ok.any():
        return True
    aa, bb = a[ok], b[ok]
    inf_a, inf_b = np.isinf(aa), np.isinf(bb)
    if not np.array_equal(inf_a, inf_b):
        return False
    if inf_a.any():
        if not np.array_equal(aa[inf_a], bb[inf_a]):
            return False
        aa, bb = aa[~inf_a], bb[~inf_a]
    return bool(np.all(np.abs(aa - bb) <= atol + rtol * np.maximum(np.abs(aa), np.abs(bb))))


def maxdiff(a, b):
    a = np.asarray(a, dtype=float)
    b = np.asarray(b, dtype=float)
    if a.shape != b.shape:
        return f'shape {a.shape} vs {b.shape}'
    with np.errstate(invalid='ignore'):
        d = np.abs(a - b)
    if np.all(np.isnan(d)):
        return 'all-nan'
    return float(np.nanmax(d))


class Ctx:
    def __init__(self, prop, tier, seed, shard=0, nshards=1, replay=None):
        self.prop = prop
        self.tier = tier
        self.seed = int(seed)
        self.shard = int(shard)
        self.nshards = int(nshards)
        self.rng = np.random.default_rng([self.seed, self.shard, int(prop[1:])])
        self.t0 = time.time()
        self.evaluations = 0
        self.sigs = {}          # sig_key -> count (non-trivial cases only)
        self.trivial = 0
        self.samples = []
        self.sample_keys = set()
        self.counters = {}
        self.violations = []    # dicts: check, sig, msg, data
        self.vio_by_sig = {}
        self.notes = []
        self.replay = replay
        self.deadline = None
        self.timeouts = []
        self.fail_keys = None   # whitelist of signature keys kept in *failure* signatures

    # ---- budgeting -------------------------------------------------------
    def n(self, quick, thorough=None):
        """number of cases for this shard"""
        if thorough is None:
            thorough = quick * 4
        scale = float(os.environ.get('VERIF_SCALE', '1'))
        return max(1, int((quick if self.tier == 'quick' else thorough) * scale))

    @property
    def thorough(self):
        return self.tier == 'thorough'

    def elapsed(self):
        return time.time() - self.t0

    def out_of_time(self):
        return self.deadline is not None and time.time() > self.deadline

    # ---- recording -------------------------------------------------------
    def count(self, name, k=1):
        self.counters[name] = self.counters.get(name, 0) + k

    def case(self, check, sig=None, sample=None, nontrivial=True):
        self.evaluations += 1
        self.count('check:' + check)
        if not nontrivial:
            self.trivial += 1
            return
        key = sig_key(check, sig or {})
        self.sigs[key] = self.sigs.get(key, 0) + 1
        if sample is not None and len(self.samples) < MAX_SAMPLES and key not in self.sample_keys:
            self.sample_keys.add(key)
            self.samples.append({'check': check, 'sig': jsonable(sig or {}),
                                 'case': jsonable(sample)})

    def fail(self, check, sig, msg, data=None):
        if self.fail_keys is not None and sig:
            # failure signatures name the mechanism only (so that known findings are keyed by
            # mechanism and one defect is one line), coverage signatures keep everything
            sig = {k: v for k, v in sig.items() if k in self.fail_keys}
        key = sig_key(check, sig or {})
        n = self.vio_by_sig.get(key, 0)
        self.vio_by_sig[key] = n + 1
        if n < MAX_REPLAYS_PER_SIG:
            self.violations.append({'check': check, 'sig': jsonable(sig or {}),
                                    'msg': str(msg)[:2000], 'data': jsonable(data),
                                    'seed': self.seed, 'shard': self.shard,
                                    'tier': self.tier})

    def check(self, cond, check, sig, msg, data=None):
        """convenience: record a case and a failure if cond is false"""
        if not cond:
            self.fail(check, sig, msg() if callable(msg) else msg,
                      data() if callable(data) else data)
        return bool(cond)

    def guarded(self, check, sig, fn, *a, expect_exc=(), data=None, **k):
        """call library code; an unexpected exception is a violation of `check`"""
        import signal

        def _alarm(signum, frame):
            raise CallTimeout(f'library call exceeded {CALL_TIMEOUT_S}s')
        old = signal.signal(signal.SIGALRM, _alarm)
        signal.alarm(CALL_TIMEOUT_S)
        try:
            return True, fn(*a, **k)
        except expect_exc as exc:
            return False, exc
        except CallTimeout as exc:
            # a generous wall-clock watchdog: recorded as a witness of non-termination within the budget;
            # the module decides (by a logical argument, e.g. a repeated state) whether it is a violation
            self.count('call_timeouts')
            self.timeouts.append({'check': check, 'sig': jsonable(sig or {}),
                                  'data': jsonable(data() if callable(data) else data)})
            return False, exc
        except Exception as exc:  # noqa
            tb = traceback.format_exc(limit=6)
            self.fail(check, dict(sig or {}, exception=type(exc).__name__),
                      f'{type(exc).__name__}: {exc}\n{tb}',
                      data() if callable(data) else data)
            return False, exc
        finally:
            signal.alarm(0)
            signal.signal(signal.SIGALRM, old)

    def state(self):
        return {'prop': self.prop, 'tier': self.tier, 'seed': self.seed, 'shard': self.shard,
                'evaluations': self.evaluations, 'sigs': self.sigs, 'trivial': self.trivial,
                'samples': self.samples, 'counters': self.counters,
                'violations': self.violations, 'vio_by_sig': self.vio_by_sig,
                'notes': self.notes, 'wall_s': self.elapsed(), 'timeouts': self.timeouts[:5]}


# ---------------------------------------------------------------------------
# known findings
# ---------------------------------------------------------------------------
def load_known():
    if not os.path.exists(KNOWN_FILE):
        return []
    with open(KNOWN_FILE) as f:
        return json.load(f).get('findings', [])


def match_known(prop, vio, known):
    """a violation is a known finding iff property, check and every signature predicate of
    a *known* (not fixed) entry match.  Predicates: exact value, or {"in": [...]}."""
    for ent in known:
        if ent.get('status') != 'known' or ent.get('property') != prop:
            continue
        chk = ent.get('check')
        if (vio['check'] not in chk) if isinstance(chk, list) else (chk != vio['check']):
            continue
        ok = True
        for k, want in ent.get('match', {}).items():
            got = vio['sig'].get(k, '<absent>')
            if isinstance(want, dict) and 'in' in want:
                if got not in want['in']:
                    ok = False
            elif got != want:
                ok = False
            if not ok:
                break
        if ok:
            return ent
    return None


# ---------------------------------------------------------------------------
# merging shards and writing the verdict
# ---------------------------------------------------------------------------
def merge_states(states):
    out = {'evaluations': 0, 'sigs': {}, 'trivial': 0, 'samples': [], 'counters': {},
           'violations': [], 'vio_by_sig': {}, 'notes': [], 'shards': len(states), 'timeouts': []}
    for st in states:
        out['evaluations'] += st['evaluations']
        out['trivial'] += st['trivial']
        for k, v in st['sigs'].items():
            out['sigs'][k] = out['sigs'].get(k, 0) + v
        for k, v in st['counters'].items():
            out['counters'][k] = out['counters'].get(k, 0) + v
        for k, v in st['vio_by_sig'].items():
            out['vio_by_sig'][k] = out['vio_by_sig'].get(k, 0) + v
        out['violations'].extend(st['violations'])
        for s in st['samples']:
            if len(out['samples']) < MAX_SAMPLES:
                out['samples'].append(s)
        out['notes'].extend(st['notes'])
        out['timeouts'].extend(st.get('timeouts', []))
    return out


def finish(prop, mod, tier, seed, merged, wall_s, inconclusive_reasons, reach=None,
           extra_cov=None, write_evidence=True):
    """print verdict lines, write evidence, return exit code"""
    known = load_known()
    os.makedirs(EVID_DIR, exist_ok=True)
    real, hits = [], {}
    for vio in merged['violations']:
        ent = match_known(prop, vio, known)
        if ent is not None:
            hits.setdefault(ent['id'], [ent, 0])
            hits[ent['id']][1] += 1
        else:
            real.append(vio)
    # total counts (vio_by_sig counts every occurrence, not just the stored ones)
    n_total = sum(merged['vio_by_sig'].values())
    for ent, cnt in hits.values():
        print(f"KNOWN-FINDING: property={prop} {ent['what']} [finding {ent['id']}; "
              f"{cnt} witness(es) stored this run]")
    replay_paths = []
    if real:
        os.makedirs(REPLAY_DIR, exist_ok=True)
        seen = {}
        for vio in real:
            key = sig_key(vio['check'], vio['sig'])
            seen[key] = seen.get(key, 0) + 1
            if len(replay_paths) >= 25:
                continue
            path = os.path.join(REPLAY_DIR, f'{prop}-{len(replay_paths)}.json')
            with open(path, 'w') as f:
                json.dump({'property': prop, **vio}, f, indent=1)
            replay_paths.append(path)
            first = vio['msg'].splitlines()[0] if vio['msg'] else ''
            print(f"VIOLATION property={prop} replay={path} check={vio['check']} "
                  f"sig={json.dumps(vio['sig'], sort_keys=True)} :: {first[:300]}")
    distinct = len(merged['sigs'])
    cov = {
        'evaluations': int(merged['evaluations']),
        'distinct_nontrivial': int(distinct),
        'rule': getattr(mod, 'RULE', ''),
        'samples': merged['samples'] or [{'note': 'no sample recorded'}],
        'trivial_cases': int(merged['trivial']),
        'counters': {k: int(v) for k, v in sorted(merged['counters'].items())},
        'shards': merged.get('shards', 1),
        'known_findings_hit': {k: v[1] for k, v in hits.items()},
        'violating_signatures': {k: int(v) for k, v in sorted(merged['vio_by_sig'].items())},
        'anchors_reached': reach or {},
        'inconclusive': inconclusive_reasons,
        'technique': getattr(mod, 'TECHNIQUE', ''),
        'tree': env.tree_info(),
        'notes': merged['notes'][:40],
        'call_timeouts': merged.get('timeouts', [])[:3],
    }
    if extra_cov:
        cov.update(extra_cov)
    evid = {
        'property_id': prop, 'tier': tier, 'seed': int(seed),
        'level': getattr(mod, 'LEVEL', 'exploration'),
        'coverage': cov,
        'assumptions': list(getattr(mod, 'ASSUMPTIONS', [])),
        'wall_s': round(float(wall_s), 2),
        'violations': len(real),
        'violation_occurrences_total': int(n_total),
    }
    if write_evidence:
        with open(os.path.join(EVID_DIR, f'{prop}.json'), 'w') as f:
            json.dump(evid, f, indent=1, sort_keys=True)
    if real:
        for r in inconclusive_reasons:
            print(f'NOTE (also inconclusive) property={prop} reason={r}')
        print(f'{prop} {tier}: VIOLATED ({len(real)} stored witnesses, '
              f'{merged["evaluations"]} oracle evaluations, {distinct} distinct configurations)')
        return 1
    if inconclusive_reasons:
        for r in inconclusive_reasons:
            print(f'INCONCLUSIVE property={prop} reason={r}')
        return 2
    print(f'{prop} {tier}: held on {merged["evaluations"]} oracle evaluations, '
          f'{distinct} distinct non-trivial configurations, '
          f'{len(hits)} known finding(s) reproduced, wall {wall_s:.1f}s')
    return 0
