"""Deep fingerprints of rsatoolbox objects and arguments (M-fp) and helpers for the read-only guard (M-ro)."""
import hashlib

import numpy as np


def _h(b):
    return hashlib.blake2b(b, digest_size=12).hexdigest()


def _val(v):
    if isinstance(v, np.ndarray):
        return ('nd', str(v.dtype), v.shape, _h(np.ascontiguousarray(v).tobytes()) if v.dtype != object
                else tuple(_val(x) for x in v.ravel().tolist()))
    if isinstance(v, (list, tuple)):
        return ('seq',) + tuple(_val(x) for x in v)
    if isinstance(v, dict):
        return ('dict',) + tuple((str(k), _val(x)) for k, x in sorted(v.items(), key=lambda kv: str(kv[0])))
    if isinstance(v, np.generic):
        return ('np', str(v.dtype), v.item() if not isinstance(v.item(), float) or v.item() == v.item() else 'nan')
    if isinstance(v, float) and v != v:
        return 'nan'
    if v is None or isinstance(v, (bool, int, float, str, bytes)):
        return (type(v).__name__, v)
    return fingerprint(v)


def _dval(v):
    """descriptor value: element values and order matter, the container type (list/ndarray/tuple) does not"""
    if isinstance(v, np.ndarray) and v.ndim == 1:
        v = v.tolist()
    if isinstance(v, (list, tuple)):
        return ('seq',) + tuple(_dval(x) if isinstance(x, (list, tuple, np.ndarray)) else
                                ('s', str(x)) if isinstance(x, (str, np.str_)) else
                                ('n', float(x)) if isinstance(x, (int, float, np.integer, np.floating, bool, np.bool_))
                                and x == x else _val(x) for x in v)
    return _val(v)


def _desc(d, skip_index):
    if not isinstance(d, dict):
        return ('notdict', type(d).__name__)
    return tuple((str(k), _dval(v)) for k, v in sorted(d.items(), key=lambda kv: str(kv[0]))
                 if not (skip_index and k == 'index'))


def fingerprint(x, depth=0, index=False):
    """bit-exact fingerprint of data arrays and user-supplied descriptors (the library-managed 'index' of RDMs objects
    is excluded unless index=True: constructors add it to fresh objects, but an operation on ANOTHER object must not
    change it -- it is the default descriptor of bootstrap and crossvalidation)"""
    from rsatoolbox.data.base import DatasetBase
    from rsatoolbox.inference import Result
    from rsatoolbox.model import Model
    from rsatoolbox.rdm import RDMs
    if depth > 6:
        return 'deep'
    if isinstance(x, RDMs):
        try:        # the square form as the object reports it now (what a later matrix consumer will see)
            sq = _val(np.asarray(x.get_matrices()))
        except Exception as exc:
            sq = ('raises', type(exc).__name__)
        return ('RDMs', _val(x.dissimilarities), _desc(x.descriptors, False), _desc(x.rdm_descriptors, not index),
                _desc(x.pattern_descriptors, not index), x.dissimilarity_measure, x.n_rdm, x.n_cond, sq)
    if isinstance(x, DatasetBase):
        t = _desc(getattr(x, 'time_descriptors', {}), False)
        return (type(x).__name__, _val(x.measurements), _desc(x.descriptors, False), _desc(x.obs_descriptors, False),
                _desc(x.channel_descriptors, False), t)
    if isinstance(x, Model):
        return (type(x).__name__, x.name, fingerprint(x.rdm_obj, depth + 1, index) if x.rdm_obj is not None else None,
                _val(getattr(x, 'rdm', None)))
    if isinstance(x, Result):
        return ('Result', _val(x.evaluations), _val(x.noise_ceiling), _val(x.variances), x.dof, x.method, x.cv_method,
                tuple(fingerprint(m, depth + 1, index) for m in x.models))
    if isinstance(x, (list, tuple)):
        return (type(x).__name__,) + tuple(fingerprint(v, depth + 1, index) for v in x)
    if isinstance(x, dict):
        return ('dict',) + tuple((str(k), fingerprint(v, depth + 1, index) if isinstance(v, dict) or hasattr(v, '__dict__')
                                  and not isinstance(v, np.ndarray) else _dval(v))
                                 for k, v in sorted(x.items(), key=lambda kv: str(kv[0])))
    return _val(x) if not hasattr(x, '__dict__') or isinstance(x, np.ndarray) else ('obj', type(x).__name__)


def arrays_of(x, depth=0, out=None):
    """all numpy arrays reachable from x (data arrays of objects, array arguments, array descriptors)"""
    from rsatoolbox.data.base import DatasetBase
    from rsatoolbox.inference import Result
    from rsatoolbox.model import Model
    from rsatoolbox.rdm import RDMs
    out = [] if out is None else out
    if depth > 6:
        return out
    if isinstance(x, np.ndarray):
        out.append(x)
    elif isinstance(x, RDMs):
        out.append(x.dissimilarities)
        for d in (x.rdm_descriptors, x.pattern_descriptors, x.descriptors):
            arrays_of(d, depth + 1, out)
    elif isinstance(x, DatasetBase):
        out.append(x.measurements)
        for d in (x.obs_descriptors, x.channel_descriptors, x.descriptors, getattr(x, 'time_descriptors', {})):
            arrays_of(d, depth + 1, out)
    elif isinstance(x, Model):
        arrays_of(x.rdm_obj, depth + 1, out)
        arrays_of(getattr(x, 'rdm', None), depth + 1, out)
    elif isinstance(x, Result):
        for a in (x.evaluations, x.noise_ceiling, x.variances):
            arrays_of(a, depth + 1, out)
        for m in x.models:
            arrays_of(m, depth + 1, out)
    elif isinstance(x, (list, tuple)):
        for v in x:
            arrays_of(v, depth + 1, out)
    elif isinstance(x, dict):
        for v in x.values():
            arrays_of(v, depth + 1, out)
    return out


def freeze(x):
    """M-ro: make every reachable array read-only (an in-place write then raises inside the library)"""
    n = 0
    for a in arrays_of(x):
        if a.flags.writeable and a.dtype != object:
            try:
                a.flags.writeable = False
                n += 1
            except ValueError:
                pass
    return n


def data_arrays_of(x, depth=0, out=None):
    """the data arrays only (dissimilarities / measurements / array arguments), no descriptor containers"""
    from rsatoolbox.data.base import DatasetBase
    from rsatoolbox.model import Model
    from rsatoolbox.rdm import RDMs
    out = [] if out is None else out
    if depth > 4:
        return out
    if isinstance(x, np.ndarray):
        out.append(x)
    elif isinstance(x, RDMs):
        out.append(x.dissimilarities)
    elif isinstance(x, DatasetBase):
        out.append(x.measurements)
    elif isinstance(x, Model):
        data_arrays_of(x.rdm_obj, depth + 1, out)
    elif isinstance(x, (list, tuple)):
        for v in x:
            data_arrays_of(v, depth + 1, out)
    return out


def shares_memory(result, args):
    """(i_result_array, i_arg_array) of data arrays that share memory"""
    ra = [a for a in data_arrays_of(result) if a.size > 0 and a.dtype != object]
    aa = [a for a in data_arrays_of(args) if a.size > 0 and a.dtype != object]
    for i, r in enumerate(ra):
        for j, a in enumerate(aa):
            if np.shares_memory(r, a):
                return (i, j)
    return None


def shares_labelled(result, args):
    """like shares_memory, but a plain array result sharing memory with a plain array argument is not reported: the
    property speaks of the *labelled content* of objects (identity-like array helpers may return their input)"""
    def tops(x):
        return list(x) if isinstance(x, (list, tuple)) else [x]
    for r in tops(result):
        for a in tops(args):
            if isinstance(r, np.ndarray) and isinstance(a, np.ndarray):
                continue
            if shares_memory(r, a) is not None:
                return (type(r).__name__, type(a).__name__)
    return None
