"""Seeded generators of hostile inputs.  They draw from the numpy Generator handed in
(ctx.rng), never from numpy's global RNG, which belongs to the code under test."""
import numpy as np


def pick(rng, seq):
    return seq[int(rng.integers(len(seq)))]


def labels(rng, n, kind):
    """n distinct labels.
    int     : distinct ints (may be negative, non-contiguous)
    str     : distinct lower-case words
    strnum  : decimal strings whose lexicographic order differs from numeric ('10' < '9')
    """
    if kind == 'int':
        return [int(v) for v in rng.choice(np.arange(-5, 40), size=n, replace=False)]
    if kind == 'str':
        words = ['apple', 'bird', 'cat', 'dog', 'egg', 'fig', 'goat', 'hat', 'ink', 'jar',
                 'kite', 'lamp', 'moon', 'nut', 'owl', 'pen', 'Zed', 'Bee']
        return [str(w) for w in rng.choice(words, size=n, replace=False)]
    if kind == 'strnum':
        return [str(v) for v in rng.choice(np.arange(1, 25), size=n, replace=False)]
    if kind == 'floatts':
        # acquisition time stamps (seconds since the epoch, one hour apart): distinct floats that are equal to within
        # the default tolerances of numpy.isclose -- labels are matched by value, not approximately
        return [float(1.7e9 + 3600.0 * v) for v in rng.choice(np.arange(0, 40), size=n, replace=False)]
    raise ValueError(kind)


LABEL_KINDS = ['int', 'str', 'strnum']
CONTAINERS = ['list', 'ndarray']  # the properties speak of lists or arrays; tuples are outside


def wrap(values, container):
    if container == 'list':
        return list(values)
    if container == 'tuple':
        return tuple(values)
    return np.array(values)


def spd(rng, p, cond=100.0):
    """random SPD matrix with condition number <= cond"""
    if p == 1:
        return np.array([[float(rng.uniform(0.5, 2.0))]])
    q, _ = np.linalg.qr(rng.standard_normal((p, p)))
    ev = np.exp(rng.uniform(0, np.log(cond), size=p))
    ev = ev / ev.min()
    ev *= rng.uniform(0.2, 2.0)
    m = (q * ev) @ q.T
    return (m + m.T) / 2


def values(rng, shape, kind):
    """measurement arrays.
    normal : standard normal * scale + offset
    smallint_f : small integers stored as float (many ties)
    int : integer dtype (int64/int32/int16), moderate magnitude
    pos : strictly positive (for poisson)
    posint : non-negative integer counts (integer dtype)
    """
    if kind == 'normal':
        return rng.standard_normal(shape) * rng.uniform(0.3, 5) + rng.uniform(-2, 2)
    if kind == 'smallint_f':
        return rng.integers(-3, 4, size=shape).astype(float)
    if kind == 'int':
        dt = pick(rng, [np.int64, np.int32, np.int16])
        return rng.integers(-40, 41, size=shape).astype(dt)
    if kind == 'int8':
        return rng.integers(-100, 101, size=shape).astype(np.int8)
    if kind == 'uint8':          # e.g. pixel intensities: sums of two values leave the dtype's range
        return rng.integers(120, 256, size=shape).astype(np.uint8)
    if kind == 'bool':
        return rng.integers(0, 2, size=shape).astype(bool)
    if kind == 'f32':            # single precision, values exactly representable (multiples of 1/8)
        return (rng.integers(-64, 65, size=shape) / 8.0).astype(np.float32)
    if kind == 'pos':
        return rng.gamma(2.0, 2.0, size=shape) + 0.01
    if kind == 'posint':
        dt = pick(rng, [np.int64, np.int32])
        return rng.integers(0, 12, size=shape).astype(dt)
    raise ValueError(kind)


def design(rng, n_cond, reps='balanced', rmax=4, rmin=1):
    """returns cond index per observation (shuffled) and the repetition counts"""
    if reps == 'balanced':
        r = int(rng.integers(rmin, rmax + 1))
        counts = [r] * n_cond
    elif reps == 'single':
        counts = [1] * n_cond
    else:
        counts = [int(v) for v in rng.integers(rmin, rmax + 1, size=n_cond)]
        if len(set(counts)) == 1 and n_cond > 1:
            counts[0] = counts[0] + 1
    idx = np.repeat(np.arange(n_cond), counts)
    rng.shuffle(idx)
    return idx, counts


def rdm_vectors(rng, n_rdm, n_cond, kind='normal'):
    """dissimilarity vectors.
    pos     : positive continuous
    ties    : small non-negative integers (many ties)
    neg     : contains negative entries (e.g. crossnobis estimates)
    eucl    : squared euclidean distances of random points (embeddable)
    """
    n_pair = n_cond * (n_cond - 1) // 2
    if kind == 'pos':
        return rng.uniform(0.05, 3.0, size=(n_rdm, n_pair))
    if kind == 'ties':
        return rng.integers(0, 4, size=(n_rdm, n_pair)).astype(float)
    if kind == 'neg':
        return rng.standard_normal((n_rdm, n_pair))
    if kind == 'eucl':
        out = np.empty((n_rdm, n_pair))
        iu = np.triu_indices(n_cond, 1)
        for i in range(n_rdm):
            pts = rng.standard_normal((n_cond, max(2, n_cond)))
            d = ((pts[:, None, :] - pts[None, :, :]) ** 2).sum(-1)
            out[i] = d[iu]
        return out
    raise ValueError(kind)


def group_labels(rng, n, kind):
    """grouping descriptor for resampling: kind in singleton / pairs / giant / few"""
    if kind == 'singleton':
        g = np.arange(n)
    elif kind == 'pairs':
        g = np.arange(n) // 2
    elif kind == 'giant':
        g = np.zeros(n, dtype=int)
        if n > 2:
            g[-1] = 1
            g[-2] = 2 if n > 3 else 1
    elif kind == 'few':
        k = max(2, min(3, n))
        g = np.arange(n) % k
    else:
        raise ValueError(kind)
    g = np.asarray(g)
    perm = rng.permutation(n)
    return g[perm]


_BUFFERS = {}


def reused_buffer(arr):
    """the caller's preallocated array: one buffer per (shape, dtype) for the whole process, overwritten in place with
    the new content and handed out again -- the same object (same id) carries different values from call to call,
    which is how analysis loops over subjects commonly reuse arrays.  Code that remembers an argument by identity
    instead of by value is caught by the next call."""
    import numpy as np
    arr = np.asarray(arr)
    key = (arr.shape, arr.dtype.str)
    buf = _BUFFERS.get(key)
    if buf is None:
        buf = _BUFFERS[key] = np.empty(arr.shape, dtype=arr.dtype)
    buf[...] = arr
    return buf


DERIVATIONS = ['fresh', 'copy', 'deepcopy', 'pickle', 'dict']


def derived(rng, obj, how=None):
    """an object that went through a copy / deepcopy / pickle / to_dict+from_dict round trip before it is used (or the
    object itself): the operation under test must not tell a derived object from a freshly constructed one.
    Returns (object, how)."""
    import copy
    import pickle
    how = how or pick(rng, DERIVATIONS)
    if how == 'copy' and hasattr(obj, 'copy'):
        return obj.copy(), how
    if how == 'deepcopy':
        return copy.deepcopy(obj), how
    if how == 'pickle':
        return pickle.loads(pickle.dumps(obj)), how
    if how == 'dict' and hasattr(obj, 'to_dict'):
        d = obj.to_dict()
        name = type(obj).__name__
        if name == 'RDMs':
            from rsatoolbox.rdm import rdms_from_dict
            return rdms_from_dict(d), how
        if name in ('Dataset', 'TemporalDataset'):
            from rsatoolbox.data.dataset import dataset_from_dict
            return dataset_from_dict(d), how
        if hasattr(type(obj), 'from_dict'):
            return type(obj).from_dict(d), how
    return obj, 'fresh'


_CYCLE = [0]


def derived_cycle(obj, ways=('fresh', 'copy', 'pickle', 'fresh', 'deepcopy', 'dict')):
    """derived(), the way taken in turn (no random numbers consumed: the case streams stay as they were)"""
    _CYCLE[0] += 1
    return derived(None, obj, ways[_CYCLE[0] % len(ways)])[0]
