"""sys.monitoring reach counters: which functions of the tree under test were entered.

PY_START only; a code object is DISABLEd after LIMIT hits so the overhead stays small.
Counts are therefore saturating (>= LIMIT means "at least LIMIT").
"""
import os
import sys

LIMIT = 200
_TOOL = 4  # free tool id (0..5; 0-2 are debugger/coverage/profiler by convention)
_counts = {}
_prefix = None
_active = False


def _on_start(code, offset):
    fn = code.co_filename
    if _prefix is not None and fn.startswith(_prefix):
        key = (fn[len(_prefix):].lstrip(os.sep), code.co_qualname)
        c = _counts.get(key, 0) + 1
        _counts[key] = c
        if c >= LIMIT:
            return sys.monitoring.DISABLE
        return None
    return sys.monitoring.DISABLE


def start(pkg_dir):
    global _prefix, _active
    if _active or not hasattr(sys, 'monitoring'):
        return
    _prefix = os.path.realpath(pkg_dir)
    mon = sys.monitoring
    try:
        mon.use_tool_id(_TOOL, 'verif-reach')
    except ValueError:
        return
    mon.register_callback(_TOOL, mon.events.PY_START, _on_start)
    mon.set_events(_TOOL, mon.events.PY_START)
    _active = True


def stop():
    global _active
    if not _active:
        return
    mon = sys.monitoring
    mon.set_events(_TOOL, 0)
    mon.register_callback(_TOOL, mon.events.PY_START, None)
    mon.free_tool_id(_TOOL)
    _active = False


def counts():
    """{'rdm/calc.py:calc_rdm': n, ...}"""
    return {f'{f}:{q}': c for (f, q), c in sorted(_counts.items())}


def by_name():
    out = {}
    for (f, q), c in _counts.items():
        out[q] = out.get(q, 0) + c
    return out
