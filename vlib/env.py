"""Locate the tree under test and (re-)enter the right interpreter/environment.

The tree under test is RSATOOLBOX_SRC (default /repo/src).  Every check runs under
/venv/bin/python with PYTHONPATH=<src>:<verif>/.deps:<verif>, PYTHONHASHSEED=0,
PYTHONDONTWRITEBYTECODE=1, MPLBACKEND=Agg.  icontract/deal are installed offline into
<verif>/.deps from the wheelhouse if they are not there yet (git-ignored, so absent
after a fresh restore).
"""
import os
import subprocess
import sys

VERIF = os.path.dirname(os.path.dirname(os.path.abspath(__file__)))
DEPS = os.path.join(VERIF, '.deps')
PY = os.environ.get('RSATOOLBOX_PY', '/venv/bin/python')
WHEELS = '/opt/veriftools/wheels'
GUARD = 'RSATOOLBOX_VERIF'


def src_root():
    return os.path.abspath(os.environ.get('RSATOOLBOX_SRC', '/repo/src'))


def repo_root():
    return os.path.dirname(src_root())


def ensure_deps(verbose=False):
    """install icontract + deal beside the repo's interpreter (offline). Idempotent."""
    marker = os.path.join(DEPS, 'icontract', '__init__.py')
    if os.path.exists(marker):
        return True
    os.makedirs(DEPS, exist_ok=True)
    cmd = [PY, '-m', 'pip', 'install', '--no-index', '--find-links', WHEELS,
           '--target', DEPS, '--quiet', '--disable-pip-version-check',
           'icontract', 'deal']
    env = dict(os.environ, PIP_NO_INDEX='1')
    res = subprocess.run(cmd, env=env, stdout=subprocess.PIPE,
                         stderr=subprocess.STDOUT, text=True)
    if verbose or res.returncode != 0:
        sys.stderr.write(res.stdout)
    return os.path.exists(marker)


def child_env(extra=None):
    env = dict(os.environ)
    env['PYTHONPATH'] = os.pathsep.join([src_root(), DEPS, VERIF])
    env['PYTHONHASHSEED'] = '0'
    env['PYTHONDONTWRITEBYTECODE'] = '1'
    env['MPLBACKEND'] = 'Agg'
    env['OMP_NUM_THREADS'] = '1'
    env['OPENBLAS_NUM_THREADS'] = '1'
    env['MKL_NUM_THREADS'] = '1'
    env[GUARD] = '1'
    env['VERIF_INNER'] = '1'
    env['TQDM_DISABLE'] = '1'
    env.pop('PYTHONSTARTUP', None)
    if extra:
        env.update(extra)
    return env


def reexec_if_needed(argv):
    """Called by run_check.py: make sure we run under PY with the environment above."""
    if os.environ.get('VERIF_INNER') == '1':
        return
    ensure_deps()
    os.execve(PY, [PY] + argv, child_env())


def tree_info():
    """identity of the tree under test for the evidence file"""
    import hashlib
    root = repo_root()
    info = {'src': src_root()}
    try:
        head = subprocess.run(['git', '-C', root, 'rev-parse', 'HEAD'],
                              capture_output=True, text=True, timeout=20)
        info['head'] = head.stdout.strip()
        st = subprocess.run(['git', '-C', root, 'status', '--porcelain',
                             '--untracked-files=no'],
                            capture_output=True, text=True, timeout=20)
        info['dirty'] = bool(st.stdout.strip())
    except Exception as exc:  # pragma: no cover
        info['git_error'] = repr(exc)
    h = hashlib.sha256()
    pkg = os.path.join(src_root(), 'rsatoolbox')
    n = 0
    for dirpath, dirnames, filenames in sorted(os.walk(pkg)):
        dirnames.sort()
        for fn in sorted(filenames):
            if fn.endswith(('.py', '.pyx', '.c')):
                with open(os.path.join(dirpath, fn), 'rb') as f:
                    h.update(fn.encode())
                    h.update(f.read())
                n += 1
    info['source_sha256'] = h.hexdigest()
    info['source_files'] = n
    return info


def assert_tree():
    """the imported rsatoolbox must come from the tree under test"""
    import rsatoolbox
    got = os.path.realpath(os.path.dirname(rsatoolbox.__file__))
    want = os.path.realpath(os.path.join(src_root(), 'rsatoolbox'))
    alt = os.environ.get('RSATOOLBOX_ALT_PKG')  # sanitizer scratch copy (C15)
    if got != want and not (alt and got == os.path.realpath(alt)):
        raise RuntimeError(f'rsatoolbox imported from {got}, expected {want}')
    return got
