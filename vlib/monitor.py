"""Monitors installed from the harness (no source hooks): numpy global-RNG tap, module-attribute
wrappers with call/return event records, icontract class invariants."""
import contextlib
import itertools

import numpy as np

_seq = itertools.count()


class RngTap:
    """records every use of numpy's *global* RNG functions used by rsatoolbox"""
    NAMES = ['randint', 'shuffle', 'rand', 'randn', 'permutation', 'uniform', 'choice', 'random', 'normal']

    def __init__(self):
        self.events = []
        self._orig = {}

    def __enter__(self):
        for name in self.NAMES:
            orig = getattr(np.random, name)
            self._orig[name] = orig
            setattr(np.random, name, self._wrap(name, orig))
        return self

    def _wrap(self, name, orig):
        tap = self

        def wrapped(*a, **k):
            before = None
            if name == 'shuffle':
                before = np.array(a[0], copy=True)
            out = orig(*a, **k)
            ev = {'seq': next(_seq), 'fn': name}
            if name == 'shuffle':
                ev['before'] = before
                ev['after'] = np.array(a[0], copy=True)
            else:
                ev['args'] = a
                ev['kwargs'] = k
                ev['out'] = np.array(out, copy=True) if isinstance(out, np.ndarray) else out
            tap.events.append(ev)
            return out
        wrapped.__wrapped__ = orig
        return wrapped

    def __exit__(self, *exc):
        for name, orig in self._orig.items():
            setattr(np.random, name, orig)
        return False

    def take(self):
        ev, self.events = self.events, []
        return ev


@contextlib.contextmanager
def patched(module, name, make_wrapper):
    """replace module.name by make_wrapper(original) for the duration of the block"""
    orig = getattr(module, name)
    setattr(module, name, make_wrapper(orig))
    try:
        yield orig
    finally:
        setattr(module, name, orig)


class Trace:
    """call/return event log at a module boundary"""

    def __init__(self):
        self.events = []

    def wrap(self, label, fn, summarize_args=None, summarize_ret=None):
        tr = self

        def wrapped(*a, **k):
            ev = {'seq': next(_seq), 'ev': 'call', 'fn': label, 'args': a, 'kwargs': k}
            tr.events.append(ev)
            try:
                out = fn(*a, **k)
            except BaseException as exc:
                tr.events.append({'seq': next(_seq), 'ev': 'raise', 'fn': label, 'exc': repr(exc),
                                  'call': ev})
                raise
            tr.events.append({'seq': next(_seq), 'ev': 'return', 'fn': label, 'out': out, 'call': ev})
            return out
        wrapped.__wrapped__ = fn
        return wrapped

    def returns(self, label):
        return [e for e in self.events if e['ev'] == 'return' and e['fn'] == label]

    def calls(self, label):
        return [e for e in self.events if e['ev'] == 'call' and e['fn'] == label]
