"""Build the compiled kernel (cengine/similarity.c of the tree under test) with clang AddressSanitizer +
UndefinedBehaviorSanitizer into a scratch copy of the package and run a workload there.

The scratch tree lives under a mkdtemp directory (outside /repo and /verif) and is removed by the caller.
"""
import glob
import os
import re
import shutil
import subprocess
import sysconfig
import tempfile

from . import env

ASAN_RT = '/usr/lib/llvm-14/lib/clang/14.0.6/lib/linux/libclang_rt.asan-x86_64.so'
PY_INC = '/root/.pyenv/versions/3.12.1/include/python3.12'
NP_INC = '/venv/lib/python3.12/site-packages/numpy/_core/include'


def build(sanitize=True):
    """returns dict(ok, scratch, pkg, log, reason)"""
    src_pkg = os.path.join(env.src_root(), 'rsatoolbox')
    c_file = os.path.join(src_pkg, 'cengine', 'similarity.c')
    out = {'ok': False, 'scratch': None, 'pkg': None, 'reason': None}
    if not os.path.exists(c_file):
        out['reason'] = 'cengine/similarity.c not present in the tree under test'
        return out
    if not shutil.which('clang'):
        out['reason'] = 'clang not found'
        return out
    scratch = tempfile.mkdtemp(prefix='verif-c15-')
    out['scratch'] = scratch
    pkg = os.path.join(scratch, 'rsatoolbox')
    shutil.copytree(src_pkg, pkg, ignore=shutil.ignore_patterns('__pycache__', '*.so', '*.pyc'))
    so_name = 'similarity' + (sysconfig.get_config_var('EXT_SUFFIX') or '.cpython-312-x86_64-linux-gnu.so')
    cmd = ['clang', '-O1', '-g', '-shared', '-fPIC', '-fno-omit-frame-pointer', f'-I{PY_INC}', f'-I{NP_INC}',
           '-Wno-everything', os.path.join(pkg, 'cengine', 'similarity.c'), '-o', os.path.join(pkg, 'cengine', so_name)]
    if sanitize:
        # recover everywhere: the first defect must not mask the rest; report blocks are counted in the log
        cmd[1:1] = ['-fsanitize=address,undefined', '-fsanitize-recover=all']
    res = subprocess.run(cmd, capture_output=True, text=True, timeout=600)
    if res.returncode != 0:
        out['reason'] = 'compilation failed: ' + res.stderr[-800:]
        return out
    out.update(ok=True, pkg=pkg)
    return out


def sanitizer_env(scratch, log_prefix):
    e = env.child_env({
        'PYTHONPATH': os.pathsep.join([scratch, env.DEPS, env.VERIF]),
        'RSATOOLBOX_ALT_PKG': os.path.join(scratch, 'rsatoolbox'),
        'LD_PRELOAD': ASAN_RT,
        'PYTHONMALLOC': 'malloc',
        'ASAN_OPTIONS': f'detect_leaks=0:halt_on_error=0:abort_on_error=0:log_path={log_prefix}:print_summary=1',
        'UBSAN_OPTIONS': f'print_stacktrace=1:halt_on_error=0:log_path={log_prefix}',
    })
    return e


def parse_reports(log_prefix):
    """deduplicated sanitizer report blocks: list of dict(kind, function, location, count, text)"""
    reports = {}
    for path in glob.glob(log_prefix + '*'):
        try:
            text = open(path, errors='replace').read()
        except OSError:
            continue
        blocks = re.split(r'(?m)^=+\d*=+\s*ERROR: ', text)
        for b in blocks[1:]:
            head = b.splitlines()[0]
            m = re.match(r'AddressSanitizer: ([\w-]+)', head)
            kind = m.group(1) if m else head[:60]
            fn, loc = None, None
            for line in b.splitlines():
                mm = re.search(r'#\d+ 0x[0-9a-f]+ in (\S+) (\S+)', line)
                if mm and 'similarity' in mm.group(2):
                    fn, loc = mm.group(1), os.path.basename(mm.group(2))
                    break
            access = 'READ' if re.search(r'\bREAD of size|caused by a READ', b) else \
                ('WRITE' if re.search(r'\bWRITE of size|caused by a WRITE', b) else '?')
            key = (kind, fn, access)
            r = reports.setdefault(key, {'kind': kind, 'function': fn, 'access': access, 'location': loc, 'count': 0,
                                         'text': b[:1500]})
            r['count'] += 1
        for m in re.finditer(r'(?m)^(\S+:\d+:\d+): runtime error: (.*)$', text):
            key = ('ubsan', m.group(2)[:60], os.path.basename(m.group(1)))
            r = reports.setdefault(key, {'kind': 'undefined-behaviour', 'function': m.group(2)[:80], 'access': '',
                                         'location': os.path.basename(m.group(1)), 'count': 0, 'text': m.group(0)})
            r['count'] += 1
    return list(reports.values())
