"""pytest plugin: run the repository's own test-suite as a workload with monitors switched on (no edits under tests/).

Loaded with `-p vlib.suite_monitor`.  Every public callable of rsatoolbox.rdm/.data/.model/.inference/.util (the set
discovered by props.c12.discover) is wrapped where it is looked up (module namespaces that hold a reference, class
attributes).  For calls made *directly by test code* (depth 0 -- helpers called by the library on its own temporaries
are the library's business) the wrapper
  * fingerprints every argument before and after the call (arguments_unchanged; `self` exempt for documented in-place
    methods),
  * checks that data arrays of the result do not share memory with argument arrays (accessors exempt),
  * checks the structural class invariants of every RDMs / dataset object among arguments and result.
Events are written to $VERIF_SUITE_OUT as JSON at session end; the verdict is taken by props/c12.py.
"""
import json
import os
import sys
import threading

import numpy as np

_state = {'calls': 0, 'by_callable': {}, 'violations': [], 'test': None, 'fp_failed': 0, 'invariants': 0,
          'tests': 0, 'outcomes': {}, 'wrapped': 0, 'raised': 0}
_tl = threading.local()


def _inv_rdms(x):
    d = x.dissimilarities
    if d.ndim != 2 or d.shape[0] != x.n_rdm:
        return f'dissimilarities shape {d.shape} vs n_rdm {x.n_rdm}'
    if d.shape[1] != x.n_cond * (x.n_cond - 1) // 2:
        return f'{d.shape[1]} entries for n_cond {x.n_cond}'
    for k, v in x.rdm_descriptors.items():
        if len(v) != x.n_rdm:
            return f'rdm descriptor {k!r} has length {len(v)} for {x.n_rdm} RDMs'
    for k, v in x.pattern_descriptors.items():
        if len(v) != x.n_cond:
            return f'pattern descriptor {k!r} has length {len(v)} for {x.n_cond} conditions'
    return None


def _inv_dataset(x):
    m = x.measurements
    if m.shape[0] != x.n_obs or m.shape[1] != x.n_channel:
        return f'measurements shape {m.shape} vs n_obs {x.n_obs}, n_channel {x.n_channel}'
    for k, v in x.obs_descriptors.items():
        if len(v) != x.n_obs:
            return f'obs descriptor {k!r} has length {len(v)} for {x.n_obs} observations'
    for k, v in x.channel_descriptors.items():
        if len(v) != x.n_channel:
            return f'channel descriptor {k!r} has length {len(v)} for {x.n_channel} channels'
    if m.ndim == 3:
        for k, v in getattr(x, 'time_descriptors', {}).items():
            if len(v) != m.shape[2]:
                return f'time descriptor {k!r} has length {len(v)} for {m.shape[2]} time points'
    return None


def _objects(x, depth=0, out=None):
    from rsatoolbox.data.base import DatasetBase
    from rsatoolbox.rdm import RDMs
    out = [] if out is None else out
    if depth > 3:
        return out
    if isinstance(x, (RDMs, DatasetBase)):
        out.append(x)
    elif isinstance(x, (list, tuple)):
        for v in x[:50]:
            _objects(v, depth + 1, out)
    return out


def _record(kind, short, msg):
    if len(_state['violations']) < 200:
        _state['violations'].append({'check': kind, 'callable': short, 'test': _state['test'], 'msg': msg[:500]})


def _make_wrapper(fn, short, inplace, accessor):
    from rsatoolbox.data.base import DatasetBase
    from rsatoolbox.rdm import RDMs
    from vlib.fingerprint import fingerprint, shares_labelled
    import functools

    @functools.wraps(fn)
    def wrapper(*args, **kwargs):
        depth = getattr(_tl, 'depth', 0)
        if depth > 0 or _state['test'] is None:
            return fn(*args, **kwargs)
        _tl.depth = 1
        try:
            kw = {a: b for a, b in kwargs.items() if a not in ('fitter', 'theta')}
            try:
                before = [fingerprint(a) for a in args] + [fingerprint(kw)]
            except Exception:  # noqa
                _state['fp_failed'] += 1
                before = None
            try:
                valid_in = all(not (_inv_rdms(o) if isinstance(o, RDMs) else _inv_dataset(o)) for o in _objects(list(args)))
            except Exception:  # noqa
                valid_in = False
            try:
                result = fn(*args, **kwargs)
            except BaseException:
                _state['raised'] += 1
                raise
            _state['calls'] += 1
            _state['by_callable'][short] = _state['by_callable'].get(short, 0) + 1
            if before is not None:
                try:
                    after = [fingerprint(a) for a in args] + [fingerprint(kw)]
                except Exception:  # noqa
                    _state['fp_failed'] += 1
                    after = None
                if after is not None:
                    for i in range(1 if inplace else 0, len(before)):
                        if inplace and i < len(args) and args[i] is args[0]:
                            continue   # x.append(x): the argument is the object operated on
                        if before[i] != after[i]:
                            which = f'argument {i} ({type(args[i]).__name__})' if i < len(args) else 'keyword arguments'
                            _record('suite:arguments_unchanged', short, f'{short} modified its {which}')
                            break
            if not accessor and not inplace and not short.startswith(('batch_to_', 'ensure_double')):
                try:
                    res = list(result) if isinstance(result, tuple) else result
                    if isinstance(res, (RDMs, DatasetBase, np.ndarray, list)):
                        if shares_labelled(res, list(args)) is not None:
                            _record('suite:result_independent', short, f'{short}: a data array of the result shares memory '
                                    f'with an argument array')
                except Exception:  # noqa
                    pass
            for o in (_objects(list(args)) + _objects(list(result) if isinstance(result, tuple) else result)) if valid_in else []:
                _state['invariants'] += 1
                try:
                    err = _inv_rdms(o) if isinstance(o, RDMs) else _inv_dataset(o)
                except Exception as exc:  # noqa
                    err = None
                if err:
                    _record('suite:class_invariant', short, f'after {short}: {type(o).__name__} invariant broken: {err}')
            return result
        finally:
            _tl.depth = 0
    wrapper._verif_wrapped = True
    return wrapper


def pytest_configure(config):
    from props import c12
    found = c12.discover()
    mods = [m for n, m in list(sys.modules.items()) if n.startswith('rsatoolbox') and m is not None]
    for short, (fn, cls) in found.items():
        base = short.split('.')[-1]
        if short in c12.SKIP or base in c12.SKIP or getattr(fn, '_verif_wrapped', False):
            continue
        w = _make_wrapper(fn, short, short in c12.INPLACE, short in c12.ACCESSORS)
        if cls is not None:
            setattr(cls, fn.__name__, w)
            _state['wrapped'] += 1
        else:
            hit = False
            for m in mods:
                for name, val in list(vars(m).items()):
                    if val is fn:
                        setattr(m, name, w)
                        hit = True
            _state['wrapped'] += int(hit)


def pytest_runtest_setup(item):
    _state['test'] = item.nodeid
    _state['tests'] += 1


def pytest_runtest_logreport(report):
    if report.when == 'call' or (report.when == 'setup' and report.outcome != 'passed'):
        _state['outcomes'][report.nodeid] = report.outcome


def pytest_runtest_teardown(item):
    _state['test'] = None


def pytest_sessionfinish(session, exitstatus):
    out = os.environ.get('VERIF_SUITE_OUT')
    if out:
        with open(out, 'w') as f:
            json.dump(_state, f)
